//! The deterministic file tree the simulated histories range over. It is rebuilt from /repo's own
//! fixtures at the start of every check, so the check always follows the working tree.

use std::fs;
use std::os::unix::fs::symlink;
use std::path::{Path, PathBuf};

#[derive(Clone, Debug)]
pub struct Fixture {
    pub dir: String,       // fixture directory name under fx/
    pub file: String,      // file name
    pub is_schema: bool,   // by name: contains "schema"
    pub ops: Vec<String>,  // operation names found in a query file
    pub big: bool,         // > 50 kB: used sparingly
    pub deepbad: bool,     // a derived query with an unknown field at its deepest nesting level
}

#[derive(Clone, Debug)]
pub struct Tree {
    pub root: PathBuf,
    pub fixtures: Vec<Fixture>,
    pub dirs: Vec<String>,
    /// broken inputs, path relative to root, with a short kind label
    pub bad: Vec<(String, &'static str)>,
    /// per fixture directory: byte-identical copies of its schema files under names whose
    /// extension does not fit the content (or is unsupported)
    pub bad_related: std::collections::BTreeMap<String, Vec<(String, &'static str)>>,
}

fn copy_into(src: &Path, dst_dir: &Path, out: &mut Vec<(String, u64)>) {
    let name = src.file_name().unwrap().to_string_lossy().to_string();
    let is_q = name.ends_with(".graphql") || name.ends_with(".gql") || name.ends_with(".graphqls");
    let is_json_schema = name.ends_with(".json") && name.to_lowercase().contains("schema");
    if !(is_q || is_json_schema) {
        return;
    }
    fs::create_dir_all(dst_dir).unwrap();
    let len = fs::copy(src, dst_dir.join(&name)).unwrap();
    out.push((name, len));
}

fn operation_names(text: &str) -> Vec<String> {
    let mut ops = vec![];
    let bytes: Vec<char> = text.chars().collect();
    let kw = ["query", "mutation", "subscription"];
    let mut i = 0;
    let is_ident = |c: char| c.is_ascii_alphanumeric() || c == '_';
    while i < bytes.len() {
        if bytes[i] == '#' {
            while i < bytes.len() && bytes[i] != '\n' {
                i += 1;
            }
            continue;
        }
        let mut matched = false;
        for k in kw {
            let kc: Vec<char> = k.chars().collect();
            if i + kc.len() < bytes.len()
                && bytes[i..i + kc.len()] == kc[..]
                && (i == 0 || !is_ident(bytes[i - 1]))
                && bytes[i + kc.len()].is_whitespace()
            {
                let mut j = i + kc.len();
                while j < bytes.len() && bytes[j].is_whitespace() {
                    j += 1;
                }
                let s = j;
                while j < bytes.len() && is_ident(bytes[j]) {
                    j += 1;
                }
                if j > s {
                    ops.push(bytes[s..j].iter().collect());
                }
                i = j;
                matched = true;
                break;
            }
        }
        if !matched {
            i += 1;
        }
    }
    ops
}

/// Source directories (relative to the repository) and the name they get under `fx/`.
fn sources(repo: &Path, with_big: bool) -> Vec<(PathBuf, String)> {
    let mut v = vec![];
    let tests = repo.join("graphql_client/tests");
    if let Ok(rd) = fs::read_dir(&tests) {
        let mut subs: Vec<PathBuf> = rd
            .filter_map(|e| e.ok())
            .map(|e| e.path())
            .filter(|p| p.is_dir())
            .collect();
        subs.sort();
        for s in subs {
            let n = s.file_name().unwrap().to_string_lossy().to_string();
            v.push((s, n));
        }
    }
    v.push((tests, "countries".to_string()));
    v.push((repo.join("graphql_client_codegen/src/tests"), "codegen".to_string()));
    v.push((repo.join("graphql_client_cli/src/graphql"), "cli".to_string()));
    v.push((repo.join("examples/hasura/examples"), "hasura".to_string()));
    if with_big {
        v.push((repo.join("examples/github/examples"), "github".to_string()));
        v.push((repo.join("examples/web/src"), "web".to_string()));
        v.push((repo.join("examples/web"), "web".to_string()));
    }
    v
}

pub fn build(repo: &Path, root: &Path, with_big: bool) -> Tree {
    let _ = fs::remove_dir_all(root);
    fs::create_dir_all(root).unwrap();
    let fx = root.join("fx");
    let mut fixtures = vec![];
    let mut dirs = vec![];
    for (src, name) in sources(repo, with_big) {
        let mut files = vec![];
        if let Ok(rd) = fs::read_dir(&src) {
            let mut ps: Vec<PathBuf> = rd
                .filter_map(|e| e.ok())
                .map(|e| e.path())
                .filter(|p| p.is_file())
                .collect();
            ps.sort();
            for p in ps {
                copy_into(&p, &fx.join(&name), &mut files);
            }
        }
        if files.is_empty() {
            continue;
        }
        if !dirs.contains(&name) {
            dirs.push(name.clone());
        }
        fs::create_dir_all(fx.join(&name).join("_sub")).unwrap();
        // every SDL schema also exists as the introspection JSON a server for it would return, so
        // that the JSON front-end sees the same variety of types as the SDL one
        let mut twins = vec![];
        for (f, len) in &files {
            if f.to_lowercase().contains("schema") && f.ends_with(".graphql") && *len < 50_000 {
                let sdl = fs::read_to_string(fx.join(&name).join(f)).unwrap_or_default();
                if let Ok(c) = sdl2json::convert(&sdl, "") {
                    // same stem, other extension: schema.graphql <-> schema.json; and the SDL again
                    // under the other two supported extensions
                    let stem = f.trim_end_matches(".graphql");
                    let twin = format!("{}.json", stem);
                    let text = serde_json::to_string(&serde_json::json!({"data": {"__schema": c.schema}})).unwrap();
                    fs::write(fx.join(&name).join(&twin), &text).unwrap();
                    twins.push((twin, text.len() as u64));
                    for ext in ["gql", "graphqls"] {
                        let alt = format!("{}.{}", stem, ext);
                        fs::write(fx.join(&name).join(&alt), &sdl).unwrap();
                        twins.push((alt, sdl.len() as u64));
                    }
                }
            }
        }
        let files: Vec<(String, u64)> = files.into_iter().chain(twins).collect();
        for (f, len) in files {
            let is_schema = f.to_lowercase().contains("schema");
            let ops = if is_schema {
                vec![]
            } else {
                operation_names(&fs::read_to_string(fx.join(&name).join(&f)).unwrap_or_default())
            };
            fixtures.push(Fixture {
                dir: name.clone(),
                file: f,
                is_schema,
                ops,
                big: len > 50_000,
                deepbad: false,
            });
        }
    }
    // tiny synthetic fixtures (a recursive input pair, an enum + interface): small enough for the
    // instruction-level scheduler (Miri batch), and part of the ordinary workload too
    // a wide and deep schema: more than 64 / 256 of everything (types, enum values, fields of one
    // type, input fields, fragments, operations in one document, nesting levels), for code paths
    // that only larger inputs take
    let wide_schema: &'static str = {
        let mut s = String::from("schema { query: Q }\n");
        s += &format!("enum Big {{ {} }}\n", (0..300).map(|i| format!("V{}", i)).collect::<Vec<_>>().join(" "));
        for i in 0..80 {
            s += &format!("type W{} {{ id: ID, n: Int, big: Big, next: W{}, peers: [W{}!] }}\n", i, (i + 1) % 80, (i + 7) % 80);
        }
        s += &format!("type Fat {{ {} }}\n", (0..270).map(|i| format!("f{}: {}", i, ["Int", "String", "Big", "W3"][i % 4])).collect::<Vec<_>>().join(", "));
        s += &format!("input In {{ {} }}\n", (0..70).map(|i| format!("i{}: {}", i, ["Int", "String", "Big"][i % 3])).collect::<Vec<_>>().join(", "));
        // more than 256 input types, two of which hold each other without a list in between
        for i in 0..300 {
            s += &format!("input J{} {{ a: Int, b: String }}\n", i);
        }
        s += "input RA { b: RB, v: Int, j: J7 }\ninput RB { a: RA, big: Big, j: J299 }\n";
        s += "type Q { w: W0, fat: Fat, take(x: In, b: Big): Int, take2(a: RA, j: J5): Int, aVeryLongFieldNameThatGoesOnAndOnAndOnAndOnAndOnAndOnAndOnAndOnAndOnAndOnAndOnAndOnAndOnAndOnAndOnAndOn: Int }\n";
        Box::leak(s.into_boxed_str())
    };
    let wide_query: &'static str = {
        let mut q = String::new();
        for i in 0..70 {
            // the first 35 sit on consecutive nesting levels, the rest on the first level
            q += &format!("fragment P{} on W{} {{ id n big }}\n", i, if i < 35 { i } else { 0 });
        }
        q += &format!("query Deep20 {{ w {}{{ id{} }}\n", "{ next ".repeat(20), " }".repeat(21));
        q += &format!("query FatAll {{ fat {{ {} }} }}\n", (0..270).map(|i| if i % 4 == 3 { format!("f{} {{ id }}", i) } else { format!("f{}", i) }).collect::<Vec<_>>().join(" "));
        q += "query Many($x: In, $b: Big = V299) { take(x: $x, b: $b) w { big } aVeryLongFieldNameThatGoesOnAndOnAndOnAndOnAndOnAndOnAndOnAndOnAndOnAndOnAndOnAndOnAndOnAndOnAndOnAndOn }\n";
        q += "query Rec2($a: RA, $j: J5) { take2(a: $a, j: $j) }\n";
        // 70 fragments: 35 nesting levels (the parser's own recursion limit is 50), 35 side by side
        let mut frag = String::from("id");
        for i in (0..35).rev() {
            frag = format!("...P{} next {{ {} }}", i, frag);
        }
        q += &format!("query Frags {{ w {{ {} {} }} }}\n", (35..70).map(|i| format!("...P{}", i)).collect::<Vec<_>>().join(" "), frag);
        for i in 0..12 {
            q += &format!("query Op{} {{ w {{ n peers {{ id }} }} }}\n", i);
        }
        Box::leak(q.into_boxed_str())
    };
    let syn: [(&str, &str, &str); 4] = [
        ("syn_wide", wide_schema, wide_query),
        (
            // one document, many operations: fragments in a diamond (G reached directly and through
            // F), operation names that collide once snake-cased, selections that flatten to the
            // same response type name
            "syn_multi",
            "schema { query: Q }\nenum Mood { HAPPY SAD }\nenum Tone { LOW HIGH }\nscalar Stamp\nscalar Money\ntype Bits { a: Int, b: Int }\ntype Author { name: String, mood: Mood, tone: Tone, since: Stamp, worth: Money, bits: Bits }\ntype Post { id: ID, title: String, author: Author }\ntype Hero { name: String, friends: [Hero] }\ntype Q { feed: [Post], me(mood: Mood, moods: [Mood!]): Author, hero: Hero, heroFriends: [Hero], thing(id: ID): Post }\n",
            "fragment G on Author { name mood since bits { a } }\nfragment F on Post { title author { ...G } }\nquery Dashboard { me { ...G } feed { ...F } }\nquery Feed { feed { ...F } }\nquery getThing { thing(id: \"1\") { title } }\nquery GetThing { thing(id: \"2\") { title author { name } } }\nquery get_thing { thing { title } }\nquery Crew { hero { friends { name } } heroFriends { name } }\nquery Crew2 { hero { name friends { friends { name } } } heroFriends { friends { name } } }\nquery Deep { hero { friends { friends { friends { friends { friends { friends { name } } } } } } } }\nquery Moods($m: Mood = HAPPY, $ms: [Mood!]) { me { mood } }\nquery ById($id: ID!) { thing(id: $id) { title } }\nquery PostIds { feed { id } }\n",
        ),
        (
            "syn_rec",
            "schema { query: Q }\nscalar Stamp\nenum Tone { LOW HIGH }\ntype Q { f(a: Rec, b: Other): Int }\ninput Rec { next: Rec, v: Int, o: Other, at: Stamp }\ninput Other { x: Int, r: [Rec!], tone: Tone }\ninput Leaf { y: String }\ninput Pair { l: Leaf, m: Leaf }\n",
            "query Op($a: Rec, $b: Other) { f(a: $a, b: $b) }\n",
        ),
        (
            "syn_iface",
            "schema { query: Q }\nenum Color { RED GREEN }\ninterface Named { name: String }\ntype A implements Named { name: String, a: Int }\ntype B implements Named { name: String, b: Color }\ntype Q { c: Color, n: Named, pick(x: Color, y: Color): Color }\n",
            // ties and duplicates on purpose: two variables of one type, an enum reached by two
            // paths, a fragment spread twice, the same field under two aliases
            "query E($x: Color, $y: Color) { c c2: c pick(x: $x, y: $y) n { __typename ...NameF ... on A { a } ... on B { b } } m: n { ...NameF ...NameF } }\nfragment NameF on Named { __typename name }\n",
        ),
    ];
    // a chain of further inputs makes per-schema analyses (anything computed lazily from the whole
    // schema) take long enough to be interleaved with
    let chain: String = (0..28).map(|i| format!("input N{} {{ a: Int, n: N{}, l: [N{}] }}\n", i, i + 1, (i + 2) % 29)).collect::<String>() + "input N28 { a: Int }\n";
    for (name, schema, query) in syn {
        let schema_text = if name == "syn_rec" { format!("{}{}", schema, chain) } else { schema.to_string() };
        let schema = schema_text.as_str();
        let d = fx.join(name);
        fs::create_dir_all(d.join("_sub")).unwrap();
        fs::write(d.join("schema.graphql"), schema).unwrap();
        fs::write(d.join("query.graphql"), query).unwrap();
        dirs.push(name.to_string());
        fixtures.push(Fixture { dir: name.to_string(), file: "schema.graphql".into(), is_schema: true, ops: vec![], big: false, deepbad: false });
        // the same schema with its definitions in reverse order: valid for the same queries, but
        // every type has another internal id - whatever is remembered per query document across
        // calls must not carry ids from one schema to the other
        let mut defs: Vec<&str> = schema.lines().filter(|l| !l.trim().is_empty()).collect();
        let head: Vec<&str> = defs.iter().filter(|l| l.starts_with("schema ")).cloned().collect();
        defs.retain(|l| !l.starts_with("schema "));
        defs.reverse();
        let permuted = head.into_iter().chain(defs).collect::<Vec<_>>().join("\n") + "\n";
        fs::write(d.join("schema_permuted.graphql"), &permuted).unwrap();
        fixtures.push(Fixture { dir: name.to_string(), file: "schema_permuted.graphql".into(), is_schema: true, ops: vec![], big: false, deepbad: false });
        fixtures.push(Fixture { dir: name.to_string(), file: "query.graphql".into(), is_schema: false, ops: operation_names(query), big: false, deepbad: false });
        // the same two files as an editor on another platform would save them: with a UTF-8
        // byte-order mark, and (the query) with CRLF line ends
        if name != "syn_wide" {
            fs::write(d.join("bom_schema.graphql"), format!("{}{}", "\u{feff}", schema)).unwrap();
            fixtures.push(Fixture { dir: name.to_string(), file: "bom_schema.graphql".into(), is_schema: true, ops: vec![], big: false, deepbad: false });
            fs::write(d.join("bom_query.graphql"), format!("{}{}", "\u{feff}", query)).unwrap();
            fixtures.push(Fixture { dir: name.to_string(), file: "bom_query.graphql".into(), is_schema: false, ops: operation_names(query), big: false, deepbad: false });
            fs::write(d.join("crlf_query.graphql"), query.replace('\n', "\r\n")).unwrap();
            fixtures.push(Fixture { dir: name.to_string(), file: "crlf_query.graphql".into(), is_schema: false, ops: operation_names(query), big: false, deepbad: false });
        }
        // a sibling of exactly the same byte length (and, written in the same instant, practically
        // the same timestamps) but different content: anything that identifies files by metadata
        // confuses the two
        if name == "syn_rec" {
            // the Rec <-> Other cycle entered at one member only
            for (file, text) in [("query_rec.graphql", "query OnlyRec($a: Rec) { f(a: $a) }\n"), ("query_other.graphql", "query OnlyOther($b: Other) { f(b: $b) }\n")] {
                fs::write(d.join(file), text).unwrap();
                fixtures.push(Fixture { dir: name.to_string(), file: file.into(), is_schema: false, ops: operation_names(text), big: false, deepbad: false });
            }
        }
        if name == "syn_multi" {
            // a second document whose fragments carry the same NAMES as those of query.graphql but
            // are different fragments (G spreads itself here and sits on another type)
            let text = "fragment G on Hero { name friends { ...G } }\nfragment F on Hero { name }\nquery Tree { hero { ...G } heroFriends { ...F } }\n";
            fs::write(d.join("query_samenames.graphql"), text).unwrap();
            fixtures.push(Fixture { dir: name.to_string(), file: "query_samenames.graphql".into(), is_schema: false, ops: operation_names(text), big: false, deepbad: false });
            // comment lines that look like an include mechanism (they are plain comments to the
            // shipped code, so these documents fail for want of their fragments - every time)
            for (file, text) in [
                ("imp_c.graphql", "fragment UserName on Author { name }\n"),
                ("imp_p.graphql", "#import \"./imp_c.graphql\"\nfragment UserCard on Author { ...UserName mood }\n"),
                ("imp_dashboard.graphql", "#import \"./imp_c.graphql\"\n#import \"./imp_p.graphql\"\nquery Dash { me { ...UserName ...UserCard } }\n"),
                ("imp_settings.graphql", "#import \"./imp_p.graphql\"\nquery Settings { me { ...UserCard } }\n"),
            ] {
                fs::write(d.join(file), text).unwrap();
                if file.starts_with("imp_d") || file.starts_with("imp_s") {
                    fixtures.push(Fixture { dir: name.to_string(), file: file.into(), is_schema: false, ops: operation_names(text), big: false, deepbad: false });
                }
            }
            // a document a little over 8 KiB whose only non-ASCII character sits across byte
            // 8191 / 8192, and one over 16 KiB with such a character across 16383 / 16384
            for (file, at) in [("query_straddle8k.graphql", 8191usize), ("query_straddle16k.graphql", 16383)] {
                let head = "# ";
                let mut text = String::from(head);
                text.push_str(&"x".repeat(at - head.len()));
                text.push('\u{e9}');
                text.push_str(&" y".repeat(500));
                text.push_str("\nquery Straddle { me { name } }\n");
                assert_eq!(text.as_bytes()[at], 0xc3);
                fs::write(d.join(file), &text).unwrap();
                fixtures.push(Fixture { dir: name.to_string(), file: file.into(), is_schema: false, ops: operation_names(&text), big: false, deepbad: false });
            }
            // a document that makes code generation itself panic (with a literal message), after
            // both files were loaded and the query was bound: `null` as a variable's default value
            {
                let text = "query NullDefault($x: Int = null) { me { name } }\n";
                fs::write(d.join("query_nulldefault.graphql"), text).unwrap();
                fixtures.push(Fixture { dir: name.to_string(), file: "query_nulldefault.graphql".into(), is_schema: false, ops: operation_names(text), big: false, deepbad: false });
            }
            // variables of types the schema does not declare, met in two different orders
            for (file, text) in [("query_undeclared_a.graphql", "query UA($a: Alpha, $z: Zeta) { me { name } }\n"), ("query_undeclared_b.graphql", "query UB($z: Zeta, $a: Alpha, $m: Mood) { me { name } }\n")] {
                fs::write(d.join(file), text).unwrap();
                fixtures.push(Fixture { dir: name.to_string(), file: file.into(), is_schema: false, ops: operation_names(text), big: false, deepbad: false });
            }
            // single-operation documents: the same schema name (`ID`) met first as a variable type
            // in one call and first as a response field type in another
            for (file, text) in [("query_idvar.graphql", "query ById($id: ID!, $ids: [ID!]) { thing(id: $id) { title } }\n"), ("query_idfield.graphql", "query PostIds { feed { id title } }\n")] {
                fs::write(d.join(file), text).unwrap();
                fixtures.push(Fixture { dir: name.to_string(), file: file.into(), is_schema: false, ops: operation_names(text), big: false, deepbad: false });
            }
        }
        if name == "syn_iface" {
            // documents that bind fine but are rejected by the validation pass that follows
            // (an interface selected without __typename, directly or through a fragment); the
            // rejection concerns the whole document, whichever operation is asked for
            for (file, text) in [
                ("query_notypename.graphql", "query NoTn { n { name } }\nquery Fine { c }\n"),
                ("query_fragnotypename.graphql", "query UsesBare { c n { __typename ...Bare } }\nfragment Bare on Named { name }\nquery Fine2 { c }\n"),
            ] {
                fs::write(d.join(file), text).unwrap();
                fixtures.push(Fixture { dir: name.to_string(), file: file.into(), is_schema: false, ops: operation_names(text), big: false, deepbad: false });
            }
        }
        if name == "syn_multi" {
            continue;
        }
        let sibling = if name == "syn_rec" { query.replace("query Op(", "query Oq(") } else if name == "syn_wide" { query.replace("query Many(", "query Nany(") } else { query.replace("query E(", "query F(") };
        assert_eq!(sibling.len(), query.len());
        fs::write(d.join("query_b.graphql"), &sibling).unwrap();
        fixtures.push(Fixture { dir: name.to_string(), file: "query_b.graphql".into(), is_schema: false, ops: operation_names(&sibling), big: false, deepbad: false });
    }
    // for every query a variant that fails validation *deep inside* its selection (an unknown field
    // at the deepest nesting level): a failure that unwinds through all enclosing levels
    let mut variants = vec![];
    for f in fixtures.iter().filter(|f| !f.is_schema && !f.big) {
        let text = fs::read_to_string(fx.join(&f.dir).join(&f.file)).unwrap_or_default();
        let (mut depth, mut best, mut best_at) = (0usize, 0usize, None);
        for (i, ch) in text.char_indices() {
            match ch {
                '{' => {
                    depth += 1;
                    if depth > best {
                        best = depth;
                        best_at = Some(i + 1);
                    }
                }
                '}' => depth = depth.saturating_sub(1),
                _ => {}
            }
        }
        if let (Some(at), true) = (best_at, best >= 2) {
            let mut t = text.clone();
            t.insert_str(at, " noSuchFieldZz ");
            let name = format!("{}_deepbad.graphql", f.file.trim_end_matches(".graphql"));
            fs::write(fx.join(&f.dir).join(&name), t).unwrap();
            variants.push(Fixture { dir: f.dir.clone(), file: name, is_schema: false, ops: f.ops.clone(), big: false, deepbad: true });
        }
    }
    fixtures.extend(variants);
    // the same file under different paths
    for d in &dirs {
        fs::create_dir_all(root.join("sym").join(d)).unwrap();
        fs::create_dir_all(root.join("hard").join(d)).unwrap();
        fs::create_dir_all(root.join("copy").join(d)).unwrap();
        symlink(fx.join(d), root.join(format!("symdir_{}", d))).unwrap();
    }
    for f in &fixtures {
        let src = fx.join(&f.dir).join(&f.file);
        symlink(&src, root.join("sym").join(&f.dir).join(&f.file)).unwrap();
        fs::hard_link(&src, root.join("hard").join(&f.dir).join(&f.file)).unwrap();
        fs::copy(&src, root.join("copy").join(&f.dir).join(&f.file)).unwrap();
    }
    // "shadow" files: a DIFFERENT file with the same base name at the place where a purely lexical
    // folding of `symdir_<d>/../<d>/<file>` would land (the OS resolves `..` after following the
    // symlink, so the real file is fx/<d>/<file>)
    for f in &fixtures {
        let src = fx.join(&f.dir).join(&f.file);
        let dst_dir = root.join(&f.dir);
        fs::create_dir_all(&dst_dir).unwrap();
        let text = fs::read(&src).unwrap();
        let shadow: Vec<u8> = if f.file.ends_with(".json") {
            text
        } else if f.is_schema {
            let t = String::from_utf8_lossy(&text).to_string();
            let t2 = if t.contains(": String") { t.replace(": String", ": Int") } else { t.replace(": Int", ": String") };
            format!("{}\n# shadow copy\n", t2).into_bytes()
        } else {
            let mut t = text;
            t.extend_from_slice(b"\n# shadow copy: same base name, different content\n");
            t
        };
        fs::write(dst_dir.join(&f.file), shadow).unwrap();
    }
    // a second working directory from which the relative spellings resolve to the same files
    fs::create_dir_all(root.join("cwd2")).unwrap();
    symlink("../fx", root.join("cwd2/fx")).unwrap();
    symlink("../bad", root.join("cwd2/bad")).unwrap();
    // broken inputs
    let bad = root.join("bad");
    fs::create_dir_all(bad.join("alias")).unwrap();
    let mut bads: Vec<(String, &'static str)> = vec![];
    let mut put = |rel: &str, bytes: &[u8], kind: &'static str, bads: &mut Vec<(String, &'static str)>| {
        fs::write(bad.join(rel), bytes).unwrap();
        bads.push((format!("bad/{}", rel), kind));
    };
    put("syntax_error.graphql", b"query Broken { field( }\n", "syntax", &mut bads);
    put("alias/query.graphql", b"query AliasQuery { alias: \n", "syntax-same-basename", &mut bads);
    put("alias/schema.graphql", b"type Query { a: }\nschema { query: }", "syntax-same-basename", &mut bads);
    put("schema_syntax_error.graphql", b"type Query {{ a: String }\n", "syntax", &mut bads);
    put("malformed_schema.json", b"{ \"data\": { \"__schema\": ", "malformed-json", &mut bads);
    put("no_schema.json", b"{\"foo\": 1}", "json-without-schema", &mut bads);
    put("schema.txt", b"type Query { a: String }\nschema { query: Query }\n", "unsupported-extension", &mut bads);
    // schemas that are read and PARSE but make the conversion into the internal schema panic half
    // way (dangling type names), i.e. a failure that unwinds out of the middle of schema building
    put("dangling_type_schema.graphql", b"enum Colour { RED GREEN }\ninput Filter { c: Colour }\ntype Query { fav(f: Filter): Colour, bad: NoSuchType }\nschema { query: Query }\n", "conversion-panics", &mut bads);
    put("dangling_iface_schema.graphql", b"scalar Stamp\nenum Tone { LOW HIGH }\ntype A implements Nope { a: Int, t: Tone }\ntype Query { a: A }\nschema { query: Query }\n", "conversion-panics", &mut bads);
    put("dangling_type_schema.json", b"{\"data\":{\"__schema\":{\"queryType\":{\"name\":\"Query\"},\"mutationType\":null,\"subscriptionType\":null,\"directives\":[],\"types\":[{\"kind\":\"ENUM\",\"name\":\"Colour\",\"description\":null,\"fields\":null,\"inputFields\":null,\"interfaces\":null,\"enumValues\":[{\"name\":\"RED\",\"description\":null,\"isDeprecated\":false,\"deprecationReason\":null}],\"possibleTypes\":null},{\"kind\":\"OBJECT\",\"name\":\"Query\",\"description\":null,\"fields\":[{\"name\":\"fav\",\"description\":null,\"args\":[],\"type\":{\"kind\":\"ENUM\",\"name\":\"Colour\",\"ofType\":null},\"isDeprecated\":false,\"deprecationReason\":null},{\"name\":\"bad\",\"description\":null,\"args\":[],\"type\":{\"kind\":\"OBJECT\",\"name\":\"NoSuchType\",\"ofType\":null},\"isDeprecated\":false,\"deprecationReason\":null}],\"inputFields\":null,\"interfaces\":[],\"enumValues\":null,\"possibleTypes\":null}]}}}", "conversion-panics", &mut bads);
    put("schema_noext", b"type Query { a: String }\nschema { query: Query }\n", "no-extension", &mut bads);
    put("schema_upper.GRAPHQL", b"type Query { a: String }\nschema { query: Query }\n", "upper-case-extension", &mut bads);
    put("schema_upper.JSON", b"{\"data\":{\"__schema\":{\"queryType\":{\"name\":\"Query\"},\"mutationType\":null,\"subscriptionType\":null,\"types\":[],\"directives\":[]}}}", "upper-case-extension", &mut bads);
    put("invalid_utf8.graphql", &[0x71, 0x75, 0xff, 0xfe, 0x80, 0x0a], "invalid-utf8", &mut bads);
    put("invalid_utf8_schema.json", &[0x7b, 0xff, 0xfe, 0x7d], "invalid-utf8", &mut bads);
    put("empty.graphql", b"", "empty", &mut bads);
    put("empty_schema.json", b"", "empty", &mut bads);
    bads.push(("bad/missing.graphql".into(), "missing"));
    bads.push(("bad/missing_schema.json".into(), "missing"));
    bads.push(("bad/nodir/query.graphql".into(), "missing-dir"));
    fs::create_dir_all(bad.join("adir.graphql")).unwrap();
    bads.push(("bad/adir.graphql".into(), "is-a-directory"));
    symlink(bad.join("nowhere.graphql"), bad.join("dangling.graphql")).unwrap();
    bads.push(("bad/dangling.graphql".into(), "dangling-symlink"));
    symlink(bad.join("loop_b.graphql"), bad.join("loop_a.graphql")).unwrap();
    symlink(bad.join("loop_a.graphql"), bad.join("loop_b.graphql")).unwrap();
    bads.push(("bad/loop_a.graphql".into(), "symlink-loop"));
    // content/extension mismatches: the text of a (valid, frequently used) schema file under a
    // name that must make the load fail. Anything that recognises files by content rather than by
    // the path it was asked for turns these failures into successes after the valid twin was used.
    let mut bad_related: std::collections::BTreeMap<String, Vec<(String, &'static str)>> = Default::default();
    fs::create_dir_all(bad.join("related")).unwrap();
    for f in fixtures.iter().filter(|f| f.is_schema && !f.big) {
        let text = fs::read(fx.join(&f.dir).join(&f.file)).unwrap_or_default();
        let (stem, is_json) = match f.file.rsplit_once('.') {
            Some((s, "json")) => (s.to_string(), true),
            Some((s, _)) => (s.to_string(), false),
            None => continue,
        };
        let names: Vec<(String, &'static str)> = if is_json {
            vec![(format!("{}__{}_json_text.graphql", f.dir, stem), "json-text-under-graphql-extension"), (format!("{}__{}.JSON", f.dir, stem), "upper-case-extension"), (format!("{}__{}_json.txt", f.dir, stem), "unsupported-extension")]
        } else if f.file.ends_with(".graphql") {
            vec![(format!("{}__{}_sdl_text.json", f.dir, stem), "sdl-text-under-json-extension"), (format!("{}__{}.txt", f.dir, stem), "unsupported-extension"), (format!("{}__{}_noext", f.dir, stem), "no-extension")]
        } else {
            continue;
        };
        for (n, kind) in names {
            fs::write(bad.join("related").join(&n), &text).unwrap();
            bad_related.entry(f.dir.clone()).or_default().push((format!("bad/related/{}", n), kind));
        }
    }
    fs::write(bad.join("afile"), b"x").unwrap();
    bads.push(("bad/afile/query.graphql".into(), "not-a-directory"));
    // every regular file gets the same modification time (as after `cargo vendor`, unpacking an
    // archive or `cp -p`): metadata never distinguishes two files of equal length
    fn stamp(dir: &Path, t: std::time::SystemTime) {
        if let Ok(rd) = fs::read_dir(dir) {
            for e in rd.filter_map(|e| e.ok()) {
                let p = e.path();
                let Ok(md) = fs::symlink_metadata(&p) else { continue };
                if md.file_type().is_symlink() {
                    continue;
                }
                if md.is_dir() {
                    stamp(&p, t);
                } else if let Ok(f) = fs::OpenOptions::new().write(true).open(&p) {
                    let _ = f.set_modified(t);
                }
            }
        }
    }
    stamp(root, std::time::UNIX_EPOCH + std::time::Duration::from_secs(1_577_836_800));
    Tree {
        root: root.to_path_buf(),
        fixtures,
        dirs,
        bad: bads,
        bad_related,
    }
}

pub const SPELLINGS: usize = 10;

impl Tree {
    /// The `k`-th way of naming fixture file `dir/file`.
    pub fn spell(&self, dir: &str, file: &str, k: usize) -> String {
        let r = self.root.display().to_string();
        match k % SPELLINGS {
            0 => format!("{}/fx/{}/{}", r, dir, file),
            1 => format!("{}/fx/{}/./{}", r, dir, file),
            2 => format!("{}/fx/{}/_sub/../{}", r, dir, file),
            3 => format!("{}/sym/{}/{}", r, dir, file),
            4 => format!("{}/hard/{}/{}", r, dir, file),
            5 => format!("{}/copy/{}/{}", r, dir, file),
            6 => format!("fx/{}/{}", dir, file),
            7 => format!("{}/symdir_{}/{}", r, dir, file),
            8 => format!("{}/symdir_{}/../{}/{}", r, dir, dir, file),
            _ => format!("{}/fx//{}/{}", r, dir, file),
        }
    }
    /// The shadow file of `dir/file` (a different file, same base name), in two spellings.
    pub fn shadow(&self, dir: &str, file: &str, k: usize) -> String {
        let r = self.root.display().to_string();
        if k % 2 == 0 {
            format!("{}/{}/{}", r, dir, file)
        } else {
            format!("{}/./{}/{}", r, dir, file)
        }
    }
    pub fn abs(&self, rel: &str) -> String {
        format!("{}/{}", self.root.display(), rel)
    }
}

#[cfg(test)]
mod tests {
    #[test]
    fn finds_operation_names() {
        let t = "# query Nope\nquery A($x: Int) { a }\n mutation  B { b }\nsubscription C{c}\nfragment F on query_x { a }";
        assert_eq!(super::operation_names(t), vec!["A", "B", "C"]);
    }
}
