//! Seeded generation of histories (thread count, per-thread call lists, schedule source, faults).
//! Every choice of one run is drawn, in a fixed order, from the one PRNG of that run.

use crate::tree::{Tree, SPELLINGS};
use serde_json::{json, Map, Value};
use simcore::Rng;

#[derive(Clone, Debug)]
pub struct History {
    pub threads: Vec<Vec<Value>>,
    pub schedule: Value,
    pub faults: Vec<Value>,
    pub flavour: &'static str, // sim | plain-seq
    pub fault_focused: bool,
    pub labels: Vec<String>, // what was deliberately put in (for probes)
}

#[derive(Clone, Copy, Debug, PartialEq, Eq)]
pub enum Batch {
    /// no injected read faults; everything must equal its reference
    Main,
    /// transient read errors injected through the cooperative fault point
    Transient,
    /// PCT-like priority schedules
    Pct,
}

fn option_set(rng: &mut Rng, ops: &[String], query_path: &str) -> Value {
    let mut o = Map::new();
    let derive = rng.chance(2, 5);
    if derive {
        o.insert("mode".into(), json!("derive"));
        let name = match rng.below(10) {
            0 => "NoSuchOperation".to_string(),
            1 if !ops.is_empty() => {
                // differs from the operation name by case only
                let n = rng.pick(ops).clone();
                let mut c = n.chars();
                match c.next() {
                    Some(f) => f.to_lowercase().collect::<String>() + c.as_str(),
                    None => n,
                }
            }
            _ if !ops.is_empty() => rng.pick(ops).clone(),
            _ => "Q".to_string(),
        };
        o.insert("struct_ident".into(), json!(name));
        o.insert("operation_name".into(), json!(name));
        if rng.chance(1, 2) {
            o.insert("query_file".into(), json!(query_path));
        }
        if rng.chance(1, 2) {
            o.insert("serde_path".into(), json!("graphql_client::_private::serde"));
        }
    } else {
        o.insert("mode".into(), json!("cli"));
        match rng.below(6) {
            0 if !ops.is_empty() => {
                o.insert("operation_name".into(), json!(rng.pick(ops).clone()));
            }
            1 => {
                o.insert("operation_name".into(), json!("NoSuchOperation"));
            }
            _ => {}
        }
    }
    if rng.chance(1, 3) {
        o.insert(
            "variables_derives".into(),
            json!(*rng.pick(&["Debug", "Default", "Debug, PartialEq, Clone", "Clone,Debug", "my_traits::Zeta, my_traits::Alpha", "Debug, my_traits::Alpha, my_traits::Zeta"])),
        );
    }
    if rng.chance(1, 3) {
        o.insert(
            "response_derives".into(),
            json!(*rng.pick(&[
                "Debug",
                "Debug, PartialEq, Eq",
                "Serialize,Clone",
                "Debug, PartialEq, Eq, std::cmp::PartialOrd",
                // derive paths nobody has a table for, in both orders
                "Debug, my_traits::Zeta, my_traits::Alpha",
                "my_traits::Alpha, Debug, my_traits::Zeta",
                "zz::Last, aa::First, Clone"
            ])),
        );
    }
    if rng.chance(1, 3) {
        o.insert("deprecation".into(), json!(*rng.pick(&["allow", "deny", "warn"])));
    }
    if rng.chance(1, 4) {
        o.insert("visibility".into(), json!(*rng.pick(&["pub", "pub(crate)"])));
    }
    if rng.chance(2, 5) {
        o.insert("normalization".into(), json!(*rng.pick(&["rust", "rust", "rust", "none"])));
    }
    if rng.chance(1, 6) {
        o.insert(
            "custom_scalars_module".into(),
            json!(*rng.pick(&["crate::scalars", "super::custom"])),
        );
    }
    if rng.chance(1, 6) {
        let all = ["DistanceUnit", "Direction", "Episode", "Status", "Mood", "Tone", "Color"];
        let k = rng.range(1, 2);
        let v: Vec<&str> = (0..k).map(|_| *rng.pick(&all)).collect();
        o.insert("extern_enums".into(), json!(v));
    }
    if rng.chance(1, 5) {
        o.insert("fragments_other_variant".into(), json!(rng.chance(1, 2)));
    }
    if rng.chance(1, 5) {
        o.insert("skip_serializing_none".into(), json!(rng.chance(1, 2)));
    }
    if rng.chance(1, 8) {
        o.insert("struct_name".into(), json!(*rng.pick(&["Renamed", "other_name", "Q"])));
    }
    if rng.chance(1, 30) {
        // not a list of derive paths: whatever the generator does with it, it must do every time
        let key = if rng.chance(1, 2) { "response_derives" } else { "variables_derives" };
        o.insert(key.into(), json!(*rng.pick(&["Debug,, Clone", "Debug Clone", "1abc, Debug", "Debug, not a path!, Clone", ""])));
    }
    Value::Object(o)
}

pub struct Gen<'a> {
    pub tree: &'a Tree,
    pub with_big: bool,
    /// master seed and size of the pool of option sets histories draw from (a bounded pool keeps
    /// the number of distinct calls, hence of fresh reference processes, proportionate)
    pub master: u64,
    pub option_pool: usize,
}

impl<'a> Gen<'a> {
    fn queries_of(&self, dir: &str) -> Vec<&crate::tree::Fixture> {
        self.tree
            .fixtures
            .iter()
            .filter(|f| f.dir == dir && !f.is_schema && !f.deepbad)
            .collect()
    }
    fn deepbad_of(&self, dir: &str) -> Vec<&crate::tree::Fixture> {
        self.tree
            .fixtures
            .iter()
            .filter(|f| f.dir == dir && f.deepbad)
            .collect()
    }
    fn schemas_of(&self, dir: &str) -> Vec<&crate::tree::Fixture> {
        self.tree
            .fixtures
            .iter()
            .filter(|f| f.dir == dir && f.is_schema)
            .collect()
    }

    /// One history from one sub-seed.
    pub fn history(&self, seed: u64, batch: Batch) -> History {
        let mut rng = Rng::new(seed);
        let mut labels = vec![];
        // swarm: a small working set of fixture directories, spellings and option palette
        let usable: Vec<&String> = self
            .tree
            .dirs
            .iter()
            .filter(|d| !self.queries_of(d).is_empty() && !self.schemas_of(d).is_empty())
            .filter(|d| {
                self.with_big && seed % 16 == 0
                    || !self
                        .tree
                        .fixtures
                        .iter()
                        .any(|f| &&f.dir == d && f.big)
            })
            .collect();
        let ndirs = rng.range(1, 4).min(usable.len());
        let mut dirs: Vec<&String> = vec![];
        while dirs.len() < ndirs {
            let d = *rng.pick(&usable);
            if !dirs.contains(&d) {
                dirs.push(d);
            }
        }
        let nspell = rng.range(1, 4);
        let spellings: Vec<usize> = (0..nspell).map(|_| rng.below(SPELLINGS)).collect();
        let use_shadows = rng.chance(1, 3);
        let fault_focused = rng.chance(1, 2);
        let plain_seq = batch == Batch::Main && rng.chance(3, 20);
        let nthreads = if plain_seq {
            1
        } else {
            match rng.below(10) {
                0 | 1 => 1,
                2..=6 => rng.range(2, 4),
                7 | 8 => rng.range(5, 8),
                _ => rng.range(9, 16),
            }
        };
        let per_thread_max = if nthreads > 8 { 3 } else { 6 };
        // option palette of this run
        let npal = rng.range(1, 4);
        let mut palette_seeds: Vec<u64> = (0..npal)
            .map(|_| simcore::subseed(self.master, "C08/option-pool", rng.below(self.option_pool) as u64) | 1)
            .collect();
        if rng.chance(1, 3) {
            palette_seeds.push(0); // the all-default option set
        }
        let enabled_bad: Vec<&(String, &'static str)> = {
            let k = rng.range(1, 4);
            (0..k).map(|_| rng.pick(&self.tree.bad)).collect()
        };

        let valid_call = |rng: &mut Rng, labels: &mut Vec<String>| -> Value {
            let d = *rng.pick(&dirs);
            let qs = self.queries_of(d);
            let ss = self.schemas_of(d);
            let mut q = *rng.pick(&qs);
            let dbs = self.deepbad_of(d);
            if !dbs.is_empty() && rng.chance(1, 10) {
                q = *rng.pick(&dbs);
                labels.push("deep-validation-failure".into());
            }
            let s = *rng.pick(&ss);
            let mut qp = self.tree.spell(&q.dir, &q.file, *rng.pick(&spellings));
            let mut sp = self.tree.spell(&s.dir, &s.file, *rng.pick(&spellings));
            if use_shadows && rng.chance(1, 4) {
                if rng.chance(1, 2) {
                    qp = self.tree.shadow(&q.dir, &q.file, rng.below(2));
                } else {
                    sp = self.tree.shadow(&s.dir, &s.file, rng.below(2));
                }
                labels.push("shadow-file".into());
            }
            let ps = *rng.pick(&palette_seeds);
            let opts = if ps == 0 {
                json!({})
            } else {
                // the palette entry is a function of (palette seed, query): stable within the run
                let mut r = Rng::new(ps ^ simcore::fnv64(q.file.as_bytes(), 7));
                option_set(&mut r, &q.ops, &qp)
            };
            let entry = if rng.chance(1, 5) { "string" } else { "file" };
            // for the text entry point: the file's text as it is, trimmed, or padded
            let text_form = *rng.pick(&["as-is", "as-is", "trimmed", "padded"]);
            if rng.chance(1, 12) {
                // a query against a schema of another directory: fails validation outside the locks
                let od = *rng.pick(&usable);
                let oss = self.schemas_of(od);
                let os = *rng.pick(&oss);
                labels.push("cross-dir-schema".into());
                let mut c = json!({"entry": entry, "query": qp, "schema": self.tree.spell(&os.dir, &os.file, 0), "opts": opts});
                if entry == "string" && text_form != "as-is" {
                    c["text_form"] = json!(text_form);
                }
                return c;
            }
            let mut c = json!({"entry": entry, "query": qp, "schema": sp, "opts": opts});
            if entry == "string" && text_form != "as-is" {
                c["text_form"] = json!(text_form);
            }
            c
        };
        let failing_call = |rng: &mut Rng, labels: &mut Vec<String>, base: &Value| -> Value {
            let (mut rel, mut kind) = (*rng.pick(&enabled_bad)).clone();
            let mut related = false;
            // a copy of this call's own schema text under a name that must fail to load
            if let Some(sp) = base["schema"].as_str() {
                if let Some((_, rel_bad)) = self.tree.bad_related.iter().find(|(d, _)| sp.contains(&format!("/{}/", d)) || sp.contains(&format!("symdir_{}/", d))) {
                    if rng.chance(1, 3) {
                        let (r, k) = rng.pick(rel_bad).clone();
                        rel = r;
                        kind = k;
                        related = true;
                    }
                }
            }
            let p = if kind == "missing" && rng.chance(1, 2) {
                rel.clone() // relative spelling of a missing path
            } else {
                self.tree.abs(&rel)
            };
            let mut c = base.clone();
            let as_schema = if related {
                true
            } else if rel.contains("schema") || rel.ends_with(".json") || rel.ends_with(".txt") {
                rng.chance(4, 5)
            } else {
                rng.chance(1, 4)
            };
            if as_schema {
                c["schema"] = json!(p);
                labels.push(format!("fail-S:{}", kind));
            } else {
                c["query"] = json!(p);
                labels.push(format!("fail-Q:{}", kind));
            }
            c
        };

        // "long" histories: many calls over many distinct paths in one process (cache growth,
        // anything that depends on how much has happened before); default options keep the
        // number of distinct reference calls bounded
        if batch == Batch::Main && rng.chance(1, 50) {
            let nthreads = if plain_seq { 1 } else { rng.range(1, 3) };
            let ncalls = rng.range(120, 400);
            let mut threads: Vec<Vec<Value>> = vec![vec![]; nthreads];
            for _ in 0..ncalls {
                let d = *rng.pick(&usable);
                let qs = self.queries_of(d);
                let ss = self.schemas_of(d);
                let (mut q, s) = (*rng.pick(&qs), *rng.pick(&ss));
                let dbs = self.deepbad_of(d);
                if !dbs.is_empty() && rng.chance(1, 5) {
                    q = *rng.pick(&dbs);
                }
                let mut c = json!({"entry": "file", "query": self.tree.spell(&q.dir, &q.file, rng.below(SPELLINGS)), "schema": self.tree.spell(&s.dir, &s.file, rng.below(SPELLINGS)), "opts": {}});
                if rng.chance(1, 6) {
                    // a query against another directory's schema: fails validation (an Err, outside
                    // the locks) - many of these on one thread accumulate whatever a failing
                    // validation leaves behind
                    let od = *rng.pick(&usable);
                    let oss = self.schemas_of(od);
                    let os = *rng.pick(&oss);
                    c["schema"] = json!(self.tree.spell(&os.dir, &os.file, 0));
                }
                if rng.chance(1, 25) {
                    let (rel, kind) = rng.pick(&self.tree.bad).clone();
                    let role = if rng.chance(1, 2) { "query" } else { "schema" };
                    c[role] = json!(self.tree.abs(&rel));
                    labels.push(format!("fail-{}:{}", if role == "query" { "Q" } else { "S" }, kind));
                }
                let t = rng.below(nthreads);
                threads[t].push(c);
            }
            threads.retain(|t| !t.is_empty());
            labels.push("long".into());
            let mut schedule = if plain_seq { json!({"kind": "none"}) } else { json!({"kind": "random", "seed": rng.next_u64()}) };
            // many distinct files in one process: with at most 64 descriptors open at a time
            schedule["rlimit_nofile"] = json!(64);
            labels.push("rlimit-nofile".into());
            return History { threads, schedule, faults: vec![], flavour: if plain_seq { "plain-seq" } else { "sim" }, fault_focused: false, labels };
        }
        let mut threads: Vec<Vec<Value>> = vec![];
        let mut total = 0;
        for _ in 0..nthreads {
            let n = rng.range(1, per_thread_max);
            let mut calls = vec![];
            for _ in 0..n {
                if total >= 64 {
                    break;
                }
                let base = valid_call(&mut rng, &mut labels);
                let p_fail = if fault_focused { 4 } else { 1 };
                let c = if rng.chance(p_fail, 20) {
                    failing_call(&mut rng, &mut labels, &base)
                } else {
                    base
                };
                calls.push(c);
                total += 1;
            }
            if !calls.is_empty() {
                threads.push(calls);
            }
        }
        if fault_focused {
            // make sure a failing call is early in some thread and valid calls follow / run alongside
            let t = rng.below(threads.len());
            let base = valid_call(&mut rng, &mut labels);
            let f = failing_call(&mut rng, &mut labels, &base);
            let pos = rng.below(threads[t].len().min(2) + 1).min(threads[t].len());
            threads[t].insert(pos, f);
            let v = valid_call(&mut rng, &mut labels);
            threads[t].push(v);
            let t2 = rng.below(threads.len());
            let v = valid_call(&mut rng, &mut labels);
            threads[t2].push(v);
        }
        // repeat a call verbatim somewhere (the "repeating a call" clause)
        if rng.chance(1, 2) {
            let t = rng.below(threads.len());
            let c = rng.pick(&threads[t]).clone();
            let t2 = rng.below(threads.len());
            threads[t2].push(c);
            labels.push("repeat".into());
        }

        let mut faults = vec![];
        if batch == Batch::Transient {
            // pick paths that some call really uses
            let mut paths: Vec<(String, &str)> = vec![];
            for t in &threads {
                for c in t {
                    if c["entry"] == "file" {
                        paths.push((c["query"].as_str().unwrap().to_string(), "Q"));
                    }
                    paths.push((c["schema"].as_str().unwrap().to_string(), "S"));
                }
            }
            let k = rng.range(1, 3);
            for _ in 0..k {
                let (p, _) = rng.pick(&paths).clone();
                let site = *rng.pick(&["read_file.open", "read_file.read"]);
                let nth = if rng.chance(1, 4) { 1 } else { 0 };
                let f = json!({"site": site, "path": p, "nth": nth});
                if !faults.contains(&f) {
                    faults.push(f);
                }
            }
            labels.push("transient".into());
            // crashes at arbitrary points INSIDE code generation: a call panics at its nth accessor
            // yield point (in the middle of schema conversion, query resolution or rendering)
            if rng.chance(1, 2) {
                let k = rng.range(1, 3);
                for _ in 0..k {
                    let t = rng.below(threads.len());
                    let c = rng.below(threads[t].len());
                    let f = json!({"site": "panic", "path": "", "thread": t, "call": c, "nth": rng.below(260)});
                    faults.push(f);
                }
                labels.push("crash-inside-codegen".into());
            }
        }

        let total_calls: usize = threads.iter().map(|t| t.len()).sum();
        let schedule = if plain_seq {
            json!({"kind": "none"})
        } else if batch == Batch::Pct {
            json!({"kind": "pct", "seed": rng.next_u64(), "depth": rng.range(1, 4), "steps_hint": total_calls * 6})
        } else {
            json!({"kind": "random", "seed": rng.next_u64()})
        };
        // half of the simulated histories also interleave at the accessor yield points inside code
        // generation (hook H4): schedules below cache-lock granularity, at native speed
        let mut schedule = schedule;
        if !plain_seq && rng.chance(1, 2) {
            schedule["fine"] = json!(true);
            labels.push("fine".into());
        }
        if rng.chance(1, 8) {
            schedule["rlimit_nofile"] = json!(40);
            labels.push("rlimit-nofile".into());
        }
        History {
            threads,
            schedule,
            faults,
            flavour: if plain_seq { "plain-seq" } else { "sim" },
            fault_focused,
            labels,
        }
    }
}
