//! Instruction-level batch of C08: the shipped (guard-off) worker interpreted by Miri, whose own
//! seeded scheduler preempts caller threads at basic-block granularity. One `-Zmiri-seed` value is
//! one exactly repeatable schedule. This reaches interleavings on state the cache seam cannot see
//! (atomics, other locks, lazily initialised data shared through the cached schema).
//! Oracle as everywhere: each call equals the same call alone in a fresh (native) process.

use crate::tree::Tree;
use serde_json::{json, Value};
use simcore::Rng;
use std::path::Path;
use std::process::Command;

pub struct Scenario {
    pub threads: Vec<Vec<Value>>,
    pub miri_seed: u64,
    pub preemption_rate: &'static str,
}

pub fn scenario(subseed: u64, tree: &Tree, small: bool) -> Scenario {
    let mut rng = Rng::new(subseed);
    let dirs = ["syn_rec", "syn_iface"];
    // more threads per interpreted process = more pairs of racing threads per interpreted second
    let nthreads = if small { 2 } else { rng.range(2, 4) };
    // threads on the same files contend on the caches and on per-schema data; threads on different
    // files contend on process-wide tables. Options are mostly shared by all calls of a scenario so
    // that option-dependent shared state is exercised by several threads at once.
    let same_dir = rng.chance(1, 2);
    let d0 = if rng.chance(2, 3) { "syn_rec" } else { "syn_iface" };
    let shared_opts: Value = match rng.below(6) {
        0 | 1 => json!({"normalization": "rust"}),
        2 => json!({"normalization": "rust", "deprecation": "deny", "variables_derives": "Debug, Clone"}),
        3 => json!({"response_derives": "Debug"}),
        _ => json!({}),
    };
    let mut threads = vec![];
    for t in 0..nthreads {
        let n = if !small && rng.chance(1, 4) { 2 } else { 1 };
        let mut calls = vec![];
        for _ in 0..n {
            let d = if same_dir { d0 } else { dirs[(t + rng.below(2)) % 2] };
            let k = *rng.pick(&[0usize, 0, 1, 3, 4]); // absolute spellings only (cwd differs under cargo)
            let qf = if rng.chance(1, 4) { "query_b.graphql" } else { "query.graphql" };
            let mut c = json!({"entry": "file", "query": tree.spell(d, qf, k), "schema": tree.spell(d, "schema.graphql", if rng.chance(2, 3) { 0 } else { k }), "opts": if rng.chance(4, 5) { shared_opts.clone() } else { json!({}) }});
            if rng.chance(1, 4) {
                let op = match (d, qf) {
                    ("syn_rec", "query.graphql") => "Op",
                    ("syn_rec", _) => "Oq",
                    (_, "query.graphql") => "E",
                    _ => "F",
                };
                c["opts"]["mode"] = json!("derive");
                c["opts"]["struct_ident"] = json!(op);
                c["opts"]["operation_name"] = json!(op);
            }
            // failing calls of several stages racing with the valid ones: load failure, failure in
            // the middle of schema conversion, validation failure deep inside a selection
            match rng.below(16) {
                0 => c["query"] = json!(tree.abs("bad/missing.graphql")),
                1 => c["schema"] = json!(tree.abs("bad/missing.graphql")),
                2 => c["schema"] = json!(tree.abs("bad/dangling_type_schema.graphql")),
                3 if d == "syn_iface" => c["query"] = json!(tree.spell(d, "query_deepbad.graphql", 0)),
                _ => {}
            }
            calls.push(c);
        }
        threads.push(calls);
    }
    Scenario { threads, miri_seed: rng.next_u64() & 0xffff_ffff, preemption_rate: *rng.pick(&["0.005", "0.01", "0.02", "0.05"]) }
}

/// None if Miri cannot be used here (reason in Err).
pub fn available(sim_dir: &Path, target: &Path) -> Result<(), String> {
    let probe = target.join("miri-probe.json");
    std::fs::create_dir_all(target).map_err(|e| e.to_string())?;
    std::fs::write(&probe, "{\"probe\":\"seam\"}").map_err(|e| e.to_string())?;
    let out = Command::new("cargo")
        .arg(std::env::var("VERIF_NIGHTLY").unwrap_or_else(|_| "+nightly".into()))
        .args(["miri", "run", "--offline", "-q", "-p", "c08-worker", "--target-dir"])
        .arg(target)
        .arg("--")
        .arg(&probe)
        .current_dir(sim_dir)
        .env("CARGO_NET_OFFLINE", "true")
        .env("MIRIFLAGS", "-Zmiri-disable-isolation")
        .env_remove("RUSTFLAGS")
        .output()
        .map_err(|e| format!("cannot run cargo +nightly miri: {}", e))?;
    let so = String::from_utf8_lossy(&out.stdout);
    if out.status.success() && so.contains("\"seam\"") {
        Ok(())
    } else {
        let se = String::from_utf8_lossy(&out.stderr);
        let first_errors: Vec<&str> = se.lines().filter(|l| l.contains("error")).take(3).collect();
        let gist = if first_errors.is_empty() { se.lines().take(3).collect::<Vec<_>>().join(" / ") } else { first_errors.join(" / ") };
        Err(format!("cargo +nightly miri run failed: {}", gist))
    }
}

pub struct MiriRun {
    pub json: Option<Value>,
    pub error: Option<String>,
}

pub fn run(sc_threads: &[Vec<Value>], miri_seed: u64, rate: &str, sim_dir: &Path, target: &Path, plan_file: &Path) -> MiriRun {
    // the epilogue repeats every distinct call once, sequentially, after the concurrent phase
    let mut distinct: Vec<Value> = vec![];
    for t in sc_threads {
        for c in t {
            if !distinct.contains(c) {
                distinct.push(c.clone());
            }
        }
    }
    let plan = json!({"threads": sc_threads, "schedule": {"kind": "free"}, "epilogue": distinct});
    if let Err(e) = std::fs::write(plan_file, plan.to_string()) {
        return MiriRun { json: None, error: Some(format!("harness: cannot write plan: {}", e)) };
    }
    let out = Command::new("cargo")
        .arg(std::env::var("VERIF_NIGHTLY").unwrap_or_else(|_| "+nightly".into()))
        .args(["miri", "run", "--offline", "-q", "-p", "c08-worker", "--target-dir"])
        .arg(target)
        .arg("--")
        .arg(plan_file)
        .current_dir(sim_dir)
        .env("CARGO_NET_OFFLINE", "true")
        .env("MIRIFLAGS", // Miri is used here as a deterministic scheduler (plus its data-race detector), not as an
        // aliasing checker: the borrow-stack and validity checks are switched off, which about
        // doubles the number of seeds per hour
        format!("-Zmiri-disable-isolation -Zmiri-disable-stacked-borrows -Zmiri-disable-validation -Zmiri-seed={} -Zmiri-preemption-rate={}", miri_seed, rate))
        .env_remove("RUSTFLAGS")
        .output();
    let out = match out {
        Ok(o) => o,
        Err(e) => return MiriRun { json: None, error: Some(format!("harness: cannot run cargo miri: {}", e)) },
    };
    let so = String::from_utf8_lossy(&out.stdout);
    let line = so.lines().rev().find(|l| l.starts_with('{'));
    match (out.status.success(), line.and_then(|l| serde_json::from_str::<Value>(l).ok())) {
        (true, Some(v)) => MiriRun { json: Some(v), error: None },
        _ => {
            let se = String::from_utf8_lossy(&out.stderr);
            let key: Vec<&str> = se.lines().filter(|l| l.contains("error") || l.contains("Undefined Behavior") || l.contains("deadlock") || l.contains("panicked")).take(4).collect();
            // something the interpreter cannot execute (FFI, mmap, inline asm …) says nothing about
            // the property: such a scenario is skipped, not judged
            let unsupported = se.contains("unsupported operation") || se.contains("is not supported") || se.contains("can't call foreign function") || se.contains("cannot call foreign function");
            let verdict_worthy = se.contains("Undefined Behavior") || se.contains("Data race") || se.contains("data race") || se.contains("deadlock");
            let prefix = if unsupported && !verdict_worthy { "unsupported: " } else { "" };
            MiriRun { json: None, error: Some(format!("{}exit {:?}: {}", prefix, out.status.code(), key.join(" / "))) }
        }
    }
}
