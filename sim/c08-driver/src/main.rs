//! c08-driver — decides property C08 by deterministic simulation.
//!
//! For every sub-seed it generates a history (threads x call lists x schedule source x faults),
//! runs it in one fresh *simulated process* (`c08-worker`, real library code under a scheduler the
//! worker owns), and compares every call's outcome with the reference: the same call made alone
//! in a fresh process of the guard-off (shipped) build, evaluated twice.
//!
//! Exit codes: 0 held, 1 violation (with `VIOLATION property=C08 replay=<file>`), 2 harness error.

mod gen;
mod miri_stage;
mod rustc_stage;
mod tree;

use gen::{Batch, Gen, History};
use serde_json::{json, Value};
use std::collections::{BTreeMap, BTreeSet, HashMap};
use std::io::Write;
use std::path::{Path, PathBuf};
use std::process::{Command, Stdio};
use std::sync::atomic::{AtomicBool, AtomicU64, AtomicUsize, Ordering};
use std::sync::Mutex;
use std::time::{Duration, Instant};

const PROP: &str = "C08";

#[derive(Clone, Debug, PartialEq)]
enum Out {
    Val { k: String, h: String, len: u64, head: String, inj: bool, poisoned: bool },
    Crash(String),
}

impl Out {
    fn from_json(v: &Value) -> Out {
        Out::Val {
            k: v["k"].as_str().unwrap_or("?").to_string(),
            h: v["h"].as_str().unwrap_or("").to_string(),
            len: v["len"].as_u64().unwrap_or(0),
            head: v["head"].as_str().unwrap_or("").to_string(),
            inj: v["inj"].as_bool().unwrap_or(false),
            poisoned: v["poisoned"].as_bool().unwrap_or(false),
        }
    }
    fn same(&self, other: &Out) -> bool {
        match (self, other) {
            (Out::Val { k, h, len, .. }, Out::Val { k: k2, h: h2, len: l2, .. }) => {
                k == k2 && h == h2 && len == l2
            }
            _ => false,
        }
    }
    fn kind(&self) -> &str {
        match self {
            Out::Val { k, .. } => k,
            Out::Crash(_) => "crash",
        }
    }
    fn inj(&self) -> bool {
        matches!(self, Out::Val { inj: true, .. })
    }
    fn poisoned(&self) -> bool {
        matches!(self, Out::Val { poisoned: true, .. })
    }
    fn head(&self) -> String {
        match self {
            Out::Val { head, .. } => head.clone(),
            Out::Crash(s) => s.clone(),
        }
    }
    fn to_json(&self) -> Value {
        match self {
            Out::Val { k, h, len, head, .. } => json!({"k": k, "h": h, "len": len, "head": head}),
            Out::Crash(s) => json!({"k": "crash", "what": s}),
        }
    }
}

struct Cfg {
    plain: PathBuf,
    hooked: Option<PathBuf>,
    tree_root: PathBuf,
    work: PathBuf,
    evidence: PathBuf,
    replays: PathBuf,
    findings: PathBuf,
    jobs: usize,
    repo: PathBuf,
    target: PathBuf,
    sim_dir: PathBuf,
}

struct WorkerResult {
    json: Option<Value>,
    crash: Option<String>,
}

/// Runs one worker process on a plan. The only clock in the harness is the watchdog here; it
/// never influences a verdict other than turning a hang into a (re-checked) report.
/// Process environments: a fresh process may come with any environment, and the outcome of a
/// call must not depend on it. Profile 0 is empty; the others set variables a build tool or a
/// shell would set, to different values.
fn env_profile(k: usize) -> Vec<(&'static str, &'static str)> {
    match k % 3 {
        0 => vec![],
        1 => vec![("CARGO_MANIFEST_DIR", "/nonexistent/profile-one"), ("HOME", "/nonexistent/home1"), ("TZ", "Pacific/Kiritimati"), ("LANG", "tr_TR.UTF-8"), ("LC_ALL", "tr_TR.UTF-8"), ("USER", "alice"), ("CARGO_PKG_NAME", "one"), ("OUT_DIR", "/nonexistent/out1"), ("TMPDIR", "/nonexistent/tmp1"), ("RUST_LOG", "trace")],
        _ => vec![("CARGO_MANIFEST_DIR", "/nonexistent/profile-two"), ("HOME", "/"), ("TZ", "UTC"), ("LANG", "C"), ("USER", "bob"), ("CARGO_PKG_NAME", "two"), ("PWD", "/nonexistent/pwd"), ("TERM", "dumb"), ("NO_COLOR", "1"), ("SOURCE_DATE_EPOCH", "0")],
    }
}

fn run_worker(bin: &Path, cwd: &Path, plan: &Value, timeout_s: u64) -> WorkerResult {
    run_worker_env(bin, cwd, plan, timeout_s, 0)
}

fn run_worker_env(bin: &Path, cwd: &Path, plan: &Value, timeout_s: u64, profile: usize) -> WorkerResult {
    // resource fault: a low limit on open file descriptors for this process (plan field
    // schedule.rlimit_nofile); code that closes what it opens never notices
    let mut cmd = match plan["schedule"]["rlimit_nofile"].as_u64() {
        Some(n) => {
            let mut c = Command::new("/bin/sh");
            c.arg("-c").arg(format!("ulimit -n {} && exec \"$0\" \"$@\"", n)).arg(bin);
            c
        }
        None => Command::new(bin),
    };
    let mut child = match cmd
        .arg("-")
        .current_dir(cwd)
        .env_clear()
        .envs(env_profile(profile))
        .stdin(Stdio::piped())
        .stdout(Stdio::piped())
        .stderr(Stdio::piped())
        .spawn()
    {
        Ok(c) => c,
        Err(e) => {
            eprintln!("harness error: cannot start {}: {}", bin.display(), e);
            std::process::exit(2);
        }
    };
    {
        let mut stdin = child.stdin.take().unwrap();
        let _ = stdin.write_all(plan.to_string().as_bytes());
    }
    // read stdout on a helper thread so that a large output cannot block the child
    let mut stdout = child.stdout.take().unwrap();
    let reader = std::thread::spawn(move || {
        let mut s = String::new();
        let _ = std::io::Read::read_to_string(&mut stdout, &mut s);
        s
    });
    let mut stderr = child.stderr.take().unwrap();
    let ereader = std::thread::spawn(move || {
        let mut s = String::new();
        let _ = std::io::Read::read_to_string(&mut stderr, &mut s);
        s
    });
    let start = Instant::now();
    let status = loop {
        match child.try_wait() {
            Ok(Some(st)) => break Some(st),
            Ok(None) => {
                if start.elapsed() > Duration::from_secs(timeout_s) {
                    let _ = child.kill();
                    let _ = child.wait();
                    break None;
                }
                std::thread::sleep(Duration::from_micros(300));
            }
            Err(_) => break None,
        }
    };
    let out = reader.join().unwrap_or_default();
    let err = ereader.join().unwrap_or_default();
    match status {
        None => WorkerResult { json: None, crash: Some(format!("hang (> {} s)", timeout_s)) },
        Some(st) if !st.success() => {
            let tail: String = err.chars().rev().take(300).collect::<String>().chars().rev().collect();
            WorkerResult { json: None, crash: Some(format!("worker died: {} {}", st, tail.trim())) }
        }
        Some(_) => match serde_json::from_str::<Value>(out.trim()) {
            Ok(v) => WorkerResult { json: Some(v), crash: None },
            Err(e) => WorkerResult { json: None, crash: Some(format!("unparsable worker output: {}", e)) },
        },
    }
}

struct Oracle<'a> {
    cfg: &'a Cfg,
    memo: Mutex<HashMap<String, Out>>,
    evaluated: AtomicU64,
    disagreements: Mutex<Vec<String>>,
}

impl<'a> Oracle<'a> {
    fn single(&self, call: &Value, profile: usize) -> Out {
        let plan = json!({"threads": [[call]], "schedule": {"kind": "none"}});
        // the second fresh process also starts in another working directory (from which the
        // relative spellings name the same files)
        let cwd = if profile == 1 { self.cfg.tree_root.join("cwd2") } else { self.cfg.tree_root.clone() };
        let r = run_worker_env(&self.cfg.plain, &cwd, &plan, 120, profile);
        match (r.json, r.crash) {
            (Some(v), _) => Out::from_json(&v["outcomes"][0][0]),
            (None, Some(c)) => Out::Crash(c),
            _ => Out::Crash("?".into()),
        }
    }
    /// The reference outcome: the call alone in a fresh process, twice; both must agree.
    fn reference(&self, call: &Value) -> Out {
        let key = call.to_string();
        if let Some(o) = self.memo.lock().unwrap().get(&key) {
            return o.clone();
        }
        // two fresh processes with different environments
        let a = self.single(call, 0);
        let b = self.single(call, 1);
        self.evaluated.fetch_add(2, Ordering::Relaxed);
        let out = if a.same(&b) || (a.kind() == "crash" && b.kind() == "crash") {
            a
        } else {
            self.disagreements.lock().unwrap().push(key.clone());
            Out::Crash(format!("two fresh processes disagree: {:?} vs {:?}", a.head(), b.head()))
        };
        self.memo.lock().unwrap().insert(key, out.clone());
        out
    }
}

#[derive(Clone, Debug)]
struct Violation {
    class: String,
    thread: usize,
    call: usize,
    expected: Value,
    got: Value,
    detail: String,
}

struct RunReport {
    violations: Vec<Violation>,
    result: Option<Value>,
    executed_calls: usize,
}

fn plan_of(h: &History, cfg: &Cfg, events: bool) -> Value {
    json!({
        "threads": h.threads,
        "schedule": h.schedule,
        "faults": h.faults,
        "max_steps": 3000000,
        "tree_prefix": format!("{}/", cfg.tree_root.display()),
        "events": events,
    })
}

/// Runs one history and checks every call against its reference.
fn run_and_check(h: &History, cfg: &Cfg, oracle: &Oracle, events: bool) -> RunReport {
    let refs: Vec<Vec<Out>> = h
        .threads
        .iter()
        .map(|t| t.iter().map(|c| oracle.reference(c)).collect())
        .collect();
    let bin = if h.flavour == "plain-seq" || cfg.hooked.is_none() {
        &cfg.plain
    } else {
        cfg.hooked.as_ref().unwrap()
    };
    let plan = plan_of(h, cfg, events);
    let r = run_worker_env(bin, &cfg.tree_root, &plan, 180, 2);
    let mut violations = vec![];
    let Some(res) = r.json else {
        violations.push(Violation {
            class: if r.crash.as_deref().unwrap_or("").starts_with("hang") { "hang".into() } else { "process-crash".into() },
            thread: 0,
            call: 0,
            expected: json!("every call completes as it does alone"),
            got: json!(r.crash),
            detail: "the simulated process did not finish".into(),
        });
        return RunReport { violations, result: None, executed_calls: 0 };
    };
    if let Some(stop) = res["stop"].as_str() {
        violations.push(Violation {
            class: stop.to_string(),
            thread: 0,
            call: 0,
            expected: json!("every call returns or unwinds"),
            got: json!({"thread_states": res["thread_states"]}),
            detail: format!("run stopped by the scheduler: {}", stop),
        });
    }
    let injected: Vec<(usize, usize)> = res["injected"]
        .as_array()
        .map(|a| {
            a.iter()
                .map(|i| (i["thread"].as_u64().unwrap_or(0) as usize, i["call"].as_u64().unwrap_or(0) as usize))
                .collect()
        })
        .unwrap_or_default();
    let mut executed = 0;
    for (t, calls) in h.threads.iter().enumerate() {
        for (i, _c) in calls.iter().enumerate() {
            let got = &res["outcomes"][t][i];
            if got.is_null() {
                continue; // not executed (only after a stop, reported above)
            }
            executed += 1;
            let got = Out::from_json(got);
            if injected.contains(&(t, i)) {
                // narrow relaxation: this call must fail with exactly the injected error
                // (a panic today; an Err would be just as good a report of the failed read)
                // and how much of the I/O error its message repeats is the code's business
                let ok = got.kind() == "panic" || got.kind() == "err";
                if !ok {
                    violations.push(Violation {
                        class: "injected-fault-not-reported".into(),
                        thread: t,
                        call: i,
                        expected: json!("a failure (panic or Err): the file could not be read"),
                        got: got.to_json(),
                        detail: "a call whose file read failed returned something else than that failure".into(),
                    });
                }
                continue;
            }
            let exp = &refs[t][i];
            if exp.kind() == "crash" {
                continue; // reference itself is undefined (excluded from the claim, counted)
            }
            if !got.same(exp) {
                let class = if got.kind() == "panic" && got.poisoned() {
                    "poison-propagation".to_string()
                } else if got.inj() {
                    "injected-fault-leaked".to_string()
                } else {
                    format!("outcome-mismatch:{}->{}", exp.kind(), got.kind())
                };
                violations.push(Violation {
                    class,
                    thread: t,
                    call: i,
                    expected: exp.to_json(),
                    got: got.to_json(),
                    detail: "call outcome differs from the same call alone in a fresh process".into(),
                });
            }
        }
    }
    RunReport { violations, result: Some(res), executed_calls: executed }
}

enum MiriVerdict {
    Ok(Value),
    /// the interpreter could not execute the scenario (unsupported operation): no verdict
    Skipped(String),
    Violation(String, String, Value),
    Harness(String),
}

/// One scenario under Miri with one seed, checked call by call against fresh-process references.
fn miri_check(threads: &[Vec<Value>], miri_seed: u64, rate: &str, cfg: &Cfg, oracle: &Oracle, slot: usize) -> MiriVerdict {
    let refs: Vec<Vec<Out>> = threads.iter().map(|t| t.iter().map(|c| oracle.reference(c)).collect()).collect();
    let dir = cfg.work.join("miri");
    let _ = std::fs::create_dir_all(&dir);
    let r = miri_stage::run(threads, miri_seed, rate, &cfg.sim_dir, &cfg.target.join("miri"), &dir.join(format!("plan-{}.json", slot)));
    let Some(res) = r.json else {
        let e = r.error.unwrap_or_default();
        if e.starts_with("harness:") {
            return MiriVerdict::Harness(e);
        }
        if e.starts_with("unsupported:") {
            return MiriVerdict::Skipped(e);
        }
        return MiriVerdict::Violation("miri:abnormal-termination".into(), format!("the interpreted process did not finish normally: {}", e), Value::Null);
    };
    // the worker appends the sequential epilogue (every distinct call once more) as a last list
    let mut distinct: Vec<Value> = vec![];
    for t in threads {
        for c in t {
            if !distinct.contains(c) {
                distinct.push(c.clone());
            }
        }
    }
    let mut all: Vec<Vec<Value>> = threads.to_vec();
    let mut refs = refs;
    refs.push(distinct.iter().map(|c| oracle.reference(c)).collect());
    all.push(distinct);
    for (t, calls) in all.iter().enumerate() {
        for (i, _) in calls.iter().enumerate() {
            if res["outcomes"][t][i].is_null() {
                continue;
            }
            let got = Out::from_json(&res["outcomes"][t][i]);
            let exp = &refs[t][i];
            if exp.kind() == "crash" {
                continue;
            }
            // Miri's file-system shim words OS errors differently ("entity not found" for ENOENT):
            // for a failed open/read compare everything up to the OS error text
            let os_prefix = |o: &Out| o.head().split("io_error: Os").next().map(|s| s.to_string());
            let same_io_failure = exp.kind() == "panic" && got.kind() == "panic" && exp.head().contains("io_error: Os") && got.head().contains("io_error: Os") && os_prefix(exp) == os_prefix(&got);
            if !got.same(exp) && !same_io_failure {
                return MiriVerdict::Violation(
                    format!("miri:outcome-mismatch:{}->{}", exp.kind(), got.kind()),
                    format!("{} call {}: expected {} got {} (call order {})", if t == threads.len() { "sequential epilogue".to_string() } else { format!("thread {}", t) }, i, exp.to_json(), got.to_json(), res["call_order"]),
                    res.clone(),
                );
            }
        }
    }
    MiriVerdict::Ok(res)
}


/// The instruction-level batch (see miri_stage.rs). Returns (evidence, violations, harness errors).
fn run_miri_batch(miri_n: usize, jobs: usize, small: bool, seed: u64, cfg: &Cfg, oracle: &Oracle, tree: &tree::Tree) -> (Value, Vec<(String, String, Value)>, Vec<String>) {
    let harness_errors: Mutex<Vec<String>> = Mutex::new(vec![]);
    let mut miri_json = json!({"skipped": "not requested"});
    let miri_violations: Mutex<Vec<(String, String, Value)>> = Mutex::new(vec![]);
    if miri_n > 0 {
        let mt = cfg.target.join("miri");
        match miri_stage::available(&cfg.sim_dir, &mt) {
            Err(e) => {
                miri_json = json!({"skipped": format!("Miri is not usable here: {}", e)});
                println!("note: Miri batch skipped ({})", e);
            }
            Ok(()) => {
                let next = AtomicUsize::new(0);
                let done = AtomicU64::new(0);
                let skipped = AtomicU64::new(0);
                let calls = AtomicU64::new(0);
                let orders: Mutex<BTreeSet<String>> = Mutex::new(BTreeSet::new());
                let det: Mutex<(u64, u64)> = Mutex::new((0, 0));
                let sample: Mutex<Vec<Value>> = Mutex::new(vec![]);
                std::thread::scope(|s| {
                    for slot in 0..jobs {
                        let (next, done, skipped, calls, orders, det, sample, miri_violations, cfg, oracle, tree, harness_errors) = (&next, &done, &skipped, &calls, &orders, &det, &sample, &miri_violations, cfg, oracle, tree, &harness_errors);
                        s.spawn(move || loop {
                            let i = next.fetch_add(1, Ordering::Relaxed);
                            if i >= miri_n {
                                break;
                            }
                            let sub = simcore::subseed(seed, "C08/miri", i as u64);
                            let sc = miri_stage::scenario(sub, tree, small);
                            let v = miri_check(&sc.threads, sc.miri_seed, sc.preemption_rate, cfg, oracle, slot);
                            match v {
                                MiriVerdict::Harness(e) => harness_errors.lock().unwrap().push(format!("miri batch: {}", e)),
                                MiriVerdict::Skipped(_) => {
                                    skipped.fetch_add(1, Ordering::Relaxed);
                                }
                                MiriVerdict::Ok(res) => {
                                    done.fetch_add(1, Ordering::Relaxed);
                                    calls.fetch_add(sc.threads.iter().map(|t| t.len() as u64).sum::<u64>(), Ordering::Relaxed);
                                    orders.lock().unwrap().insert(format!("{}|{}", simcore::fingerprint(json!(sc.threads).to_string().as_bytes()), res["call_order"].as_str().unwrap_or("")));
                                    if i % 8 == 0 {
                                        // determinism: the same seed again must give the same run
                                        if let MiriVerdict::Ok(res2) = miri_check(&sc.threads, sc.miri_seed, sc.preemption_rate, cfg, oracle, slot) {
                                            let mut d = det.lock().unwrap();
                                            d.0 += 1;
                                            if res2["call_order"] != res["call_order"] || res2["outcomes"] != res["outcomes"] {
                                                d.1 += 1;
                                            }
                                        }
                                    }
                                    let mut sm = sample.lock().unwrap();
                                    if sm.len() < 2 {
                                        sm.push(json!({"subseed": sub, "miri_seed": sc.miri_seed, "preemption_rate": sc.preemption_rate, "threads": sc.threads, "call_order": res["call_order"]}));
                                    }
                                }
                                MiriVerdict::Violation(class, detail, _) => {
                                    done.fetch_add(1, Ordering::Relaxed);
                                    let doc = json!({"property": PROP, "flavour": "miri", "subseed": sub, "miri_seed": sc.miri_seed, "preemption_rate": sc.preemption_rate, "violation": {"class": class, "detail": detail}, "plan": {"threads": sc.threads}});
                                    miri_violations.lock().unwrap().push((class, detail, doc));
                                }
                            }
                        });
                    }
                });
                let d = det.lock().unwrap();
                if d.1 > 0 {
                    harness_errors.lock().unwrap().push(format!("Miri runs not reproducible: {} of {} re-runs differed", d.1, d.0));
                }
                miri_json = json!({
                    "what": "shipped (guard-off) worker interpreted by Miri; caller threads preempted at basic-block granularity by Miri's scheduler seeded with -Zmiri-seed; every call compared with its fresh-process reference",
                    "scenarios_run": done.load(Ordering::Relaxed), "scenarios_the_interpreter_could_not_execute": skipped.load(Ordering::Relaxed), "calls_checked": calls.load(Ordering::Relaxed),
                    "distinct_scenario_x_call_order": orders.lock().unwrap().len(),
                    "reruns_with_same_seed": d.0, "reruns_that_differed": d.1,
                    "samples": *sample.lock().unwrap(),
                });
            }
        }
    }

    (miri_json, miri_violations.into_inner().unwrap(), harness_errors.into_inner().unwrap())
}

fn has_class(rep: &RunReport, class: &str) -> bool {
    rep.violations.iter().any(|v| v.class == class)
}

/// Delta-debugs a failing history while the same violation class persists.
/// An explicit decision list in place of a seeded schedule; the flags that are not about the
/// choice of who runs next (fine yield points, the descriptor limit of the process) are kept.
fn frozen(old: &Value, decisions: Value) -> Value {
    let mut v = json!({"kind": "list", "decisions": decisions});
    for k in ["fine", "rlimit_nofile"] {
        if !old[k].is_null() {
            v[k] = old[k].clone();
        }
    }
    v
}

fn minimise(h: &History, class: &str, cfg: &Cfg, oracle: &Oracle, budget: usize) -> (History, usize) {
    let mut attempts = 0usize;
    let mut best = h.clone();
    // Every confirming candidate of a hang / step-cap violation costs a full timeout: keep the
    // minimisation of those short, and bound every minimisation by wall-clock time as well.
    let budget = if class == "hang" || class == "step-cap" { budget.min(24) } else { budget };
    let began = Instant::now();
    let wall_cap = Duration::from_secs(simcore::env_usize("VERIF_C08_MINIMISE_SECS", 600) as u64);
    // 1. freeze the schedule into an explicit decision list
    if best.flavour == "sim" {
        let rep = run_and_check(&best, cfg, oracle, false);
        attempts += 1;
        if let Some(res) = &rep.result {
            if has_class(&rep, class) && res["decisions"].is_array() {
                let mut cand = best.clone();
                cand.schedule = frozen(&best.schedule, res["decisions"].clone());
                let rep2 = run_and_check(&cand, cfg, oracle, false);
                attempts += 1;
                if has_class(&rep2, class) {
                    best = cand;
                }
            }
        }
    }
    // 2. drop calls
    let flat: Vec<(usize, Value)> = best
        .threads
        .iter()
        .enumerate()
        .flat_map(|(t, cs)| cs.iter().map(move |c| (t, c.clone())))
        .collect();
    let rebuild = |items: &[(usize, Value)], base: &History| -> History {
        let mut by: BTreeMap<usize, Vec<Value>> = BTreeMap::new();
        for (t, c) in items {
            by.entry(*t).or_default().push(c.clone());
        }
        let mut hh = base.clone();
        hh.threads = by.into_values().collect();
        hh
    };
    let base = best.clone();
    let reduced = simcore::ddmin(flat, |items| {
        if attempts >= budget || began.elapsed() > wall_cap {
            return false;
        }
        attempts += 1;
        let cand = rebuild(items, &base);
        has_class(&run_and_check(&cand, cfg, oracle, false), class)
    });
    best = rebuild(&reduced, &base);
    // 3. drop faults
    if !best.faults.is_empty() {
        let base = best.clone();
        let f = simcore::ddmin(best.faults.clone(), |fs| {
            if attempts >= budget || began.elapsed() > wall_cap {
                return false;
            }
            attempts += 1;
            let mut cand = base.clone();
            cand.faults = fs.to_vec();
            has_class(&run_and_check(&cand, cfg, oracle, false), class)
        });
        if f.len() < best.faults.len() {
            let mut cand = best.clone();
            cand.faults = f;
            attempts += 1;
            if has_class(&run_and_check(&cand, cfg, oracle, false), class) {
                best = cand;
            }
        }
        // no faults at all?
        let mut cand = best.clone();
        cand.faults = vec![];
        attempts += 1;
        if has_class(&run_and_check(&cand, cfg, oracle, false), class) {
            best = cand;
        }
    }
    // 4. simplify the schedule: re-freeze for the reduced plan, then zero decisions
    if best.flavour == "sim" {
        let rep = run_and_check(&best, cfg, oracle, false);
        attempts += 1;
        if let (true, Some(res), true) = (has_class(&rep, class), &rep.result, rep.result.as_ref().map(|r| r["decisions"].is_array()).unwrap_or(false)) {
            let mut decisions: Vec<u64> = res["decisions"]
                .as_array()
                .map(|a| a.iter().map(|x| x.as_u64().unwrap_or(0)).collect())
                .unwrap_or_default();
            let try_d = |d: &Vec<u64>, attempts: &mut usize| -> bool {
                *attempts += 1;
                let mut cand = best.clone();
                cand.schedule = frozen(&best.schedule, json!(d));
                has_class(&run_and_check(&cand, cfg, oracle, false), class)
            };
            let zeros = vec![0u64; 0];
            if try_d(&zeros, &mut attempts) {
                decisions = zeros;
            } else {
                // zero from the tail, then individually
                let mut n = decisions.len();
                while n > 0 && attempts < budget && began.elapsed() <= wall_cap {
                    let mut cand = decisions.clone();
                    cand.truncate(n - 1);
                    if try_d(&cand, &mut attempts) {
                        decisions = cand;
                        n = decisions.len();
                    } else {
                        break;
                    }
                }
                for i in 0..decisions.len() {
                    if attempts >= budget || began.elapsed() > wall_cap {
                        break;
                    }
                    if decisions[i] != 0 {
                        let mut cand = decisions.clone();
                        cand[i] = 0;
                        if try_d(&cand, &mut attempts) {
                            decisions = cand;
                        }
                    }
                }
            }
            let mut cand = best.clone();
            cand.schedule = frozen(&best.schedule, json!(decisions));
            attempts += 1;
            if has_class(&run_and_check(&cand, cfg, oracle, false), class) {
                best = cand;
            }
        }
    }
    // 5. simplify options of the remaining calls
    for t in 0..best.threads.len() {
        for i in 0..best.threads[t].len() {
            if attempts >= budget || began.elapsed() > wall_cap {
                break;
            }
            if best.threads[t][i]["opts"] != json!({}) {
                let mut cand = best.clone();
                cand.threads[t][i]["opts"] = json!({});
                attempts += 1;
                if has_class(&run_and_check(&cand, cfg, oracle, false), class) {
                    best = cand;
                }
            }
        }
    }
    (best, attempts)
}

fn write_replay(cfg: &Cfg, subseed: u64, h: &History, rep: &RunReport, class: &str, minimised_attempts: usize) -> PathBuf {
    let _ = std::fs::create_dir_all(&cfg.replays);
    let fallback = Violation { class: class.to_string(), thread: 0, call: 0, expected: Value::Null, got: Value::Null, detail: "(violation details unavailable)".into() };
    let v = rep.violations.iter().find(|v| v.class == class).or(rep.violations.first()).unwrap_or(&fallback);
    let path = cfg.replays.join(format!("{}-{}.json", PROP, subseed));
    let doc = json!({
        "property": PROP,
        "subseed": subseed,
        "violation": {
            "class": v.class, "thread": v.thread, "call": v.call,
            "expected": v.expected, "got": v.got, "detail": v.detail,
        },
        "all_violations": rep.violations.iter().map(|v| json!({"class": v.class, "thread": v.thread, "call": v.call})).collect::<Vec<_>>(),
        "log_hash": rep.result.as_ref().map(|r| r["log_hash"].clone()).unwrap_or(Value::Null),
        "events": rep.result.as_ref().map(|r| r["events"].clone()).unwrap_or(Value::Null),
        "minimisation_attempts": minimised_attempts,
        "flavour": h.flavour,
        "plan": {"threads": h.threads, "schedule": h.schedule, "faults": h.faults},
        "how_to_replay": format!("cd /verif && ./check C08 --replay {}", path.display()),
    });
    // paths are recorded relative to the tree root so that a replay file works from any checkout
    let text = serde_json::to_string_pretty(&doc).unwrap().replace(&cfg.tree_root.display().to_string(), "${TREE}");
    std::fs::write(&path, text + "\n").expect("write replay");
    path
}

fn history_from_replay(doc: &Value) -> History {
    let threads = doc["plan"]["threads"]
        .as_array()
        .map(|a| a.iter().map(|t| t.as_array().cloned().unwrap_or_default()).collect())
        .unwrap_or_default();
    History {
        threads,
        schedule: doc["plan"]["schedule"].clone(),
        faults: doc["plan"]["faults"].as_array().cloned().unwrap_or_default(),
        flavour: if doc["flavour"] == "plain-seq" { "plain-seq" } else { "sim" },
        fault_focused: false,
        labels: vec![],
    }
}

#[derive(Default)]
struct Agg {
    runs: u64,
    calls: u64,
    steps: u64,
    by_flavour: BTreeMap<String, u64>,
    by_threads: BTreeMap<usize, u64>,
    counters: BTreeMap<String, u64>,
    probes: BTreeMap<String, u64>,
    fault_kinds: BTreeMap<String, u64>,
    distinct: BTreeSet<String>,
    distinct_nontrivial: BTreeSet<String>,
    outcome_kinds: BTreeMap<String, u64>,
    samples: Vec<Value>,
    violations: Vec<(u64, History, String, usize, usize)>,
    ref_crash_calls: u64,
    cross_process_comparisons: u64,
}

fn bump(m: &mut BTreeMap<String, u64>, k: &str, n: u64) {
    *m.entry(k.to_string()).or_default() += n;
}

fn absorb(agg: &mut Agg, subseed: u64, h: &History, rep: &RunReport, oracle: &Oracle, batch: Batch) {
    agg.runs += 1;
    agg.calls += rep.executed_calls as u64;
    agg.cross_process_comparisons += rep.executed_calls as u64;
    bump(&mut agg.by_flavour, &format!("{}/{:?}", h.flavour, batch), 1);
    *agg.by_threads.entry(h.threads.len()).or_default() += 1;
    let mut any_fail_inside = false;
    for l in &h.labels {
        if l.starts_with("fail-") {
            bump(&mut agg.fault_kinds, &format!("planned:{}", l), 1);
        }
    }
    if let Some(res) = &rep.result {
        if let Some(st) = res["stats"].as_object() {
            for (k, v) in st {
                bump(&mut agg.counters, k, v.as_u64().unwrap_or(0));
            }
            agg.steps += st.get("steps").and_then(|v| v.as_u64()).unwrap_or(0);
            let pr = st.get("panic_releases").and_then(|v| v.as_u64()).unwrap_or(0);
            if pr > 0 {
                any_fail_inside = true;
                bump(&mut agg.probes, "runs_with_panic_inside_critical_section", 1);
            }
            if st.get("waiters_at_panic").and_then(|v| v.as_u64()).unwrap_or(0) > 0 {
                bump(&mut agg.probes, "runs_with_waiters_present_at_panic", 1);
            }
            if st.get("acquired_while_other_cache_held").and_then(|v| v.as_u64()).unwrap_or(0) > 0 {
                bump(&mut agg.probes, "runs_where_a_cache_was_used_while_the_other_cache_holder_was_stalled", 1);
            }
            if st.get("blocked").and_then(|v| v.as_u64()).unwrap_or(0) > 0 {
                bump(&mut agg.probes, "runs_with_lock_contention", 1);
            }
        }
        if res["degraded"].as_u64().unwrap_or(0) > 0 {
            bump(&mut agg.probes, "runs_degraded_by_blocking_outside_the_seam", 1);
        }
        let inj = res["injected"].as_array().map(|a| a.len()).unwrap_or(0);
        if inj > 0 {
            bump(&mut agg.fault_kinds, "fired:transient-read-error", inj as u64);
            for i in res["injected"].as_array().unwrap() {
                if i["site"] == "panic" {
                    bump(&mut agg.fault_kinds, "fired:injected-panic-inside-codegen", 1);
                    bump(&mut agg.fault_kinds, &format!("fired:injected-panic@{}", i["path"].as_str().unwrap_or("")), 1);
                } else {
                    bump(&mut agg.fault_kinds, &format!("fired:transient@{}", i["site"].as_str().unwrap_or("")), 1);
                }
            }
        }
        // outcomes by kind, and "valid call after a failure inside a critical section"
        let mut paths_seen: BTreeMap<String, BTreeSet<String>> = BTreeMap::new();
        let mut basenames: BTreeMap<String, BTreeSet<String>> = BTreeMap::new();
        for (t, calls) in h.threads.iter().enumerate() {
            for (i, c) in calls.iter().enumerate() {
                let o = &res["outcomes"][t][i];
                if let Some(k) = o["k"].as_str() {
                    bump(&mut agg.outcome_kinds, k, 1);
                    if k == "panic" {
                        let head = o["head"].as_str().unwrap_or("");
                        let cause = if head.contains("FileNotFound") {
                            "panic:file-not-found/open-error"
                        } else if head.contains("ReadError") {
                            "panic:read-error"
                        } else if head.contains("Unsupported extension") {
                            "panic:unsupported-extension"
                        } else if head.contains("Parser error") || head.contains("parse error") || head.contains("Parse error") {
                            "panic:unparsable-graphql"
                        } else if head.contains("poisoned") {
                            "panic:poisoned"
                        } else {
                            "panic:other(json/…)"
                        };
                        bump(&mut agg.fault_kinds, &format!("fired:{}", cause), 1);
                    } else if k == "err" {
                        bump(&mut agg.fault_kinds, "fired:err-outside-locks", 1);
                    }
                }
                for role in ["query", "schema"] {
                    if let Some(p) = c[role].as_str() {
                        let real = std::fs::canonicalize(if p.starts_with('/') { PathBuf::from(p) } else { oracle.cfg.tree_root.join(p) })
                            .map(|x| x.display().to_string())
                            .unwrap_or_else(|_| p.to_string());
                        paths_seen.entry(real.clone()).or_default().insert(p.to_string());
                        let base = Path::new(p).file_name().map(|b| b.to_string_lossy().to_string()).unwrap_or_default();
                        basenames.entry(base).or_default().insert(real);
                    }
                }
            }
        }
        if paths_seen.values().any(|s| s.len() >= 2) {
            bump(&mut agg.probes, "runs_with_same_file_via_2+_paths", 1);
        }
        if basenames.values().any(|s| s.len() >= 2) {
            bump(&mut agg.probes, "runs_with_same_base_name_different_files", 1);
        }
        if h.threads.len() >= 8 {
            bump(&mut agg.probes, "runs_with_8+_threads", 1);
        }
        if h.labels.iter().any(|l| l == "fine") {
            bump(&mut agg.probes, "histories_interleaved_inside_code_generation(fine)", 1);
            bump(&mut agg.counters, "fine_yield_points", res["fine_yield_points"].as_u64().unwrap_or(0));
        }
        if h.labels.iter().any(|l| l == "long") {
            bump(&mut agg.probes, "long_histories_120_to_400_calls", 1);
        }
        if h.labels.iter().any(|l| l == "rlimit-nofile") {
            bump(&mut agg.fault_kinds, "fired:process-limited-to-40-or-64-open-descriptors", 1);
        }
        if res["stats"]["poisoned_acquisitions"].as_u64().unwrap_or(0) > 0 {
            bump(&mut agg.probes, "runs_with_lock_acquired_after_it_was_poisoned", 1);
        }
        let sig = format!(
            "{}|{}",
            simcore::fingerprint(json!(h.threads).to_string().as_bytes()),
            res["lock_order"].as_str().unwrap_or("")
        );
        let fp = simcore::fingerprint(sig.as_bytes());
        let any_panic = res["outcomes"].as_array().map(|ts| ts.iter().any(|t| t.as_array().map(|cs| cs.iter().any(|o| o["k"] == "panic")).unwrap_or(false))).unwrap_or(false);
        if h.threads.len() >= 2 || any_fail_inside || (h.flavour == "plain-seq" && any_panic) {
            agg.distinct_nontrivial.insert(fp.clone());
        }
        agg.distinct.insert(fp);
    }
    for t in &h.threads {
        for c in t {
            if oracle.reference(c).kind() == "crash" {
                agg.ref_crash_calls += 1;
            }
        }
    }
    if agg.samples.len() < 3 && (h.threads.len() >= 2 || h.flavour == "plain-seq" && oracle.cfg.hooked.is_none()) {
        agg.samples.push(json!({
            "subseed": subseed,
            "flavour": h.flavour,
            "threads": h.threads,
            "schedule": h.schedule,
            "faults": h.faults,
            "lock_order": rep.result.as_ref().map(|r| r["lock_order"].clone()),
            "outcome_kinds": rep.result.as_ref().map(|r| r["outcomes"].as_array().map(|a| a.iter().map(|t| t.as_array().map(|c| c.iter().map(|o| o["k"].clone()).collect::<Vec<_>>())).collect::<Vec<_>>())),
        }));
    }
    if let Some(v) = rep.violations.first() {
        if agg.violations.len() < 50 {
            agg.violations.push((subseed, h.clone(), v.class.clone(), v.thread, v.call));
        }
    }
}

fn usage() -> ! {
    eprintln!("usage: c08-driver run|replay <file>|selftest  --plain <bin> [--hooked <bin>] --repo <dir> --work <dir> --evidence <dir> --replays <dir> --findings <file>");
    std::process::exit(2)
}

fn main() {
    let args: Vec<String> = std::env::args().skip(1).collect();
    if args.is_empty() {
        usage();
    }
    let cmd = args[0].clone();
    let mut opt: HashMap<String, String> = HashMap::new();
    let mut positional = vec![];
    let mut i = 1;
    while i < args.len() {
        if let Some(k) = args[i].strip_prefix("--") {
            if i + 1 < args.len() {
                opt.insert(k.to_string(), args[i + 1].clone());
                i += 2;
                continue;
            }
        }
        positional.push(args[i].clone());
        i += 1;
    }
    let get = |k: &str, d: &str| opt.get(k).cloned().unwrap_or_else(|| d.to_string());
    let work = PathBuf::from(get("work", "/verif/.work/c08"));
    let tier = simcore::env_tier(&get("tier", "quick"));
    let seed = simcore::env_seed();
    let cfg = Cfg {
        plain: PathBuf::from(get("plain", "/verif/.target/plain/debug/c08-worker")),
        hooked: opt.get("hooked").map(PathBuf::from),
        tree_root: work.join("tree"),
        work: work.clone(),
        evidence: PathBuf::from(get("evidence", "/verif/evidence")),
        replays: PathBuf::from(get("replays", "/verif/replays")),
        findings: PathBuf::from(get("findings", "/verif/known_findings.json")),
        jobs: simcore::env_usize("VERIF_JOBS", 16),
        repo: PathBuf::from(get("repo", "/repo")),
        target: PathBuf::from(get("target", "/verif/.target")),
        sim_dir: PathBuf::from(get("sim", "/verif/sim")),
    };
    let repo = cfg.repo.clone();
    let started = Instant::now();
    println!("C08 seed={} tier={} seam={}", seed, tier, if cfg.hooked.is_some() { "hooked build" } else { "UNAVAILABLE (sequential histories on the guard-off build only)" });
    let with_big = tier == "thorough";
    let tree = tree::build(&repo, &cfg.tree_root, with_big);
    let oracle = Oracle { cfg: &cfg, memo: Mutex::new(HashMap::new()), evaluated: AtomicU64::new(0), disagreements: Mutex::new(vec![]) };
    let _ = &cfg.work;

    if cmd == "replay" {
        let file = positional.first().cloned().unwrap_or_else(|| usage());
        let doc: Value = serde_json::from_str(&std::fs::read_to_string(&file).unwrap_or_else(|e| {
            eprintln!("harness error: cannot read {}: {}", file, e);
            std::process::exit(2)
        }).replace("${TREE}", &cfg.tree_root.display().to_string()))
        .unwrap_or_else(|e| {
            eprintln!("harness error: bad replay file: {}", e);
            std::process::exit(2)
        });
        if doc["flavour"] == "rustc-stage" {
            let derives: Vec<rustc_stage::Derive> = doc["derives"].as_array().map(|a| a.iter().map(rustc_stage::Derive::from_json).collect()).unwrap_or_default();
            let r = rustc_stage::run(&[derives], &cfg.work, &cfg.repo, &rustc_stage::target_dir(&cfg.target));
            if let Some(e) = r.harness_error {
                eprintln!("harness error: {}", e);
                std::process::exit(2);
            }
            if r.violations.is_empty() {
                println!("replay: no violation (every derive of the sequence has the diagnostics it has alone)");
                std::process::exit(0);
            }
            for (class, detail, _) in &r.violations {
                println!("replayed violation class={}\n  {}", class, detail);
            }
            println!("VIOLATION property={} replay={}", PROP, file);
            std::process::exit(1);
        }
        if doc["flavour"] == "fresh-processes" {
            let call = doc["plan"]["threads"][0][0].clone();
            let outs: Vec<Out> = (0..8).map(|k| oracle.single(&call, k)).collect();
            let distinct: BTreeSet<String> = outs.iter().map(|o| o.to_json().to_string()).collect();
            if distinct.len() > 1 {
                println!("replayed violation class=fresh-processes-disagree\n  8 fresh processes gave {} different results for the same call", distinct.len());
                println!("VIOLATION property={} replay={}", PROP, file);
                std::process::exit(1);
            }
            println!("replay: no violation (8 fresh processes agree on this call)");
            std::process::exit(0);
        }
        if doc["flavour"] == "miri" {
            let threads: Vec<Vec<Value>> = doc["plan"]["threads"].as_array().map(|a| a.iter().map(|t| t.as_array().cloned().unwrap_or_default()).collect()).unwrap_or_default();
            let v = miri_check(&threads, doc["miri_seed"].as_u64().unwrap_or(0), doc["preemption_rate"].as_str().unwrap_or("0.01"), &cfg, &oracle, 0);
            match v {
                MiriVerdict::Harness(e) => {
                    eprintln!("harness error: {}", e);
                    std::process::exit(2);
                }
                MiriVerdict::Ok(_) => {
                    println!("replay: no violation (under this Miri seed every call equals its fresh-process reference)");
                    std::process::exit(0);
                }
                MiriVerdict::Skipped(e) => {
                    println!("replay: the interpreter cannot execute this scenario on the current tree ({}); no verdict", e);
                    std::process::exit(0);
                }
                MiriVerdict::Violation(class, detail, _) => {
                    println!("replayed violation class={}\n  {}", class, detail);
                    println!("VIOLATION property={} replay={}", PROP, file);
                    std::process::exit(1);
                }
            }
        }
        let h = history_from_replay(&doc);
        let rep = run_and_check(&h, &cfg, &oracle, true);
        if let Some(res) = &rep.result {
            if let Some(ev) = res["events"].as_array() {
                for e in ev {
                    println!("  {}", e.as_str().unwrap_or(""));
                }
            }
            println!("log_hash={} (recorded {})", res["log_hash"], doc["log_hash"]);
        }
        if rep.violations.is_empty() {
            println!("replay: no violation (the property holds on this plan with the current tree)");
            std::process::exit(0);
        }
        for v in &rep.violations {
            println!("replayed violation class={} thread={} call={}\n  expected: {}\n  got:      {}", v.class, v.thread, v.call, v.expected, v.got);
        }
        println!("VIOLATION property={} replay={}", PROP, file);
        std::process::exit(1);
    }

    let gen = Gen { tree: &tree, with_big, master: seed, option_pool: if tier == "thorough" { 96 } else { 24 } };
    // batches: (batch, number of histories)
    let scale = simcore::env_usize("VERIF_C08_RUNS", if tier == "thorough" { 300_000 } else { 4_000 });
    let batches: Vec<(Batch, usize, &str)> = vec![
        (Batch::Main, scale * 6 / 10, "main"),
        (Batch::Transient, scale * 2 / 10, "transient"),
        (Batch::Pct, scale * 2 / 10, "pct"),
    ];
    let determinism_n = if cmd == "selftest" { scale.max(200) } else if tier == "thorough" { 3000 } else { 300 };

    let agg = Mutex::new(Agg::default());
    let stop = AtomicBool::new(false);
    let harness_errors: Mutex<Vec<String>> = Mutex::new(vec![]);
    // the instruction-level batch runs alongside everything else (it is slow and mostly waits on
    // the interpreter)
    let miri_n = simcore::env_usize("VERIF_C08_MIRI", if cmd == "selftest" { 0 } else if tier == "thorough" { 2000 } else { 8 });
    let miri_jobs = if tier == "thorough" { cfg.jobs } else { 8 };
    let miri_out: Mutex<Option<(Value, Vec<(String, String, Value)>, Vec<String>)>> = Mutex::new(None);
    let (det_checked, det_degraded, det_diff, stage_json, stage_violations) = std::thread::scope(|outer| {
    outer.spawn(|| {
        let r = run_miri_batch(miri_n, miri_jobs, tier != "thorough", seed, &cfg, &oracle, &tree);
        *miri_out.lock().unwrap() = Some(r);
    });

    if cmd != "selftest" {
        for (batch, n, tag) in &batches {
            let next = AtomicUsize::new(0);
            std::thread::scope(|s| {
                for _ in 0..cfg.jobs {
                    s.spawn(|| loop {
                        let i = next.fetch_add(1, Ordering::Relaxed);
                        if i >= *n || stop.load(Ordering::Relaxed) {
                            break;
                        }
                        let sub = simcore::subseed(seed, &format!("C08/{}", tag), i as u64);
                        let mut h = gen.history(sub, *batch);
                        if cfg.hooked.is_none() {
                            // fallback: history half only
                            let all: Vec<Value> = h.threads.drain(..).flatten().collect();
                            h.threads = vec![all];
                            h.schedule = json!({"kind": "none"});
                            h.faults.clear();
                            h.flavour = "plain-seq";
                        }
                        let rep = run_and_check(&h, &cfg, &oracle, false);
                        let mut a = agg.lock().unwrap();
                        absorb(&mut a, sub, &h, &rep, &oracle, *batch);
                        if a.violations.len() >= 40 {
                            stop.store(true, Ordering::Relaxed);
                        }
                    });
                }
            });
        }
    }

    // determinism sample: the same plan twice in separate processes must give the same event log
    let det_checked = AtomicU64::new(0);
    let det_degraded = AtomicU64::new(0);
    let det_diff = Mutex::new(Vec::<u64>::new());
    if cfg.hooked.is_some() {
        let next = AtomicUsize::new(0);
        std::thread::scope(|s| {
            for _ in 0..cfg.jobs {
                s.spawn(|| loop {
                    let i = next.fetch_add(1, Ordering::Relaxed);
                    if i >= determinism_n {
                        break;
                    }
                    let batch = [Batch::Main, Batch::Transient, Batch::Pct][i % 3];
                    let sub = simcore::subseed(seed, "C08/determinism", i as u64);
                    let mut h = gen.history(sub, batch);
                    if h.flavour != "sim" {
                        h.flavour = "sim";
                        h.schedule = json!({"kind": "random", "seed": sub});
                    }
                    let plan = plan_of(&h, &cfg, false);
                    let a = run_worker(cfg.hooked.as_ref().unwrap(), &cfg.tree_root, &plan, 180);
                    let b = run_worker(cfg.hooked.as_ref().unwrap(), &cfg.tree_root, &plan, 180);
                    let key = |r: &WorkerResult| {
                        r.json.as_ref().map(|v| format!("{}|{}|{}|{}", v["log_hash"], v["outcomes"], v["decisions_fp"], v["decision_count"])).unwrap_or_else(|| format!("crash:{:?}", r.crash))
                    };
                    let degraded = |r: &WorkerResult| r.json.as_ref().map(|v| v["degraded"].as_u64().unwrap_or(0) > 0).unwrap_or(false);
                    if degraded(&a) || degraded(&b) {
                        // a thread blocked outside the seam and was detached by the watchdog: such
                        // a run is a real execution but not a replayable one; not compared
                        det_degraded.fetch_add(1, Ordering::Relaxed);
                        continue;
                    }
                    det_checked.fetch_add(1, Ordering::Relaxed);
                    if key(&a) != key(&b) {
                        det_diff.lock().unwrap().push(sub);
                    }
                });
            }
        });
    }
    let det_diff = det_diff.into_inner().unwrap();
    if !det_diff.is_empty() {
        harness_errors.lock().unwrap().push(format!("non-deterministic replay for sub-seeds {:?}", &det_diff[..det_diff.len().min(5)]));
    }

    // end-to-end stage: derives expanded by one real rustc process each (guard off)
    let stage_n = simcore::env_usize("VERIF_C08_RUSTC", if cmd == "selftest" { 0 } else if tier == "thorough" { 96 } else { 12 });
    let mut stage_json = json!({"skipped": true});
    let mut stage_violations: Vec<(String, String, Value)> = vec![];
    if stage_n > 0 {
        let hs = rustc_stage::generate_histories(seed, stage_n, &tree);
        let r = rustc_stage::run(&hs, &cfg.work, &cfg.repo, &rustc_stage::target_dir(&cfg.target));
        if let Some(e) = &r.harness_error {
            harness_errors.lock().unwrap().push(format!("rustc stage: {}", e));
        }
        stage_json = json!({
            "what": "sequences of #[derive(GraphQLQuery)] expanded by one real rustc process each through the shipped proc-macro dylib; every derive's error diagnostics compared with the same derive alone in its own rustc process",
            "rustc_processes_with_a_sequence": r.histories, "derive_expansions_compared": r.derives_checked,
            "alone_rustc_processes": r.alone_crates, "faulty_derives_in_sequences": r.faulty_derives,
            "valid_derive_expansions_compared_token_for_token": r.expansions_compared, "expansion_pass": r.expansion_note.clone().unwrap_or_else(|| "cargo +nightly check with a RUSTC_WRAPPER adding -Zunpretty=expanded".into()), "samples": r.samples,
        });
        // minimise: drop derives while the same class persists
        for (class, detail, doc) in r.violations.into_iter().take(2) {
            let mut derives: Vec<rustc_stage::Derive> = doc["derives"].as_array().unwrap().iter().map(rustc_stage::Derive::from_json).collect();
            let mut detail = detail;
            let mut i = 0;
            let mut attempts = 0;
            while i < derives.len() && derives.len() > 1 && attempts < 14 {
                let mut cand = derives.clone();
                cand.remove(i);
                attempts += 1;
                let rr = rustc_stage::run(&[cand.clone()], &cfg.work, &cfg.repo, &rustc_stage::target_dir(&cfg.target));
                if let Some((_, d2, _)) = rr.violations.iter().find(|(c, _, _)| *c == class) {
                    derives = cand;
                    detail = d2.clone();
                } else {
                    i += 1;
                }
            }
            stage_violations.push((class, detail, json!({"derives": derives.iter().map(|d| d.to_json()).collect::<Vec<_>>()})));
        }
    }

        (det_checked, det_degraded, det_diff, stage_json, stage_violations)
    }); // outer scope: the Miri batch has finished too
    let (miri_json, miri_violation_list, miri_errs) = miri_out.into_inner().unwrap().unwrap_or((json!({"skipped": "not run"}), vec![], vec![]));
    harness_errors.lock().unwrap().extend(miri_errs);
    let mut agg = agg.into_inner().unwrap();
    let wall = started.elapsed().as_secs_f64();

    // triage: known findings, minimisation, replay files
    let findings = simcore::load_findings(&cfg.findings, PROP);
    let mut reported: Vec<(String, PathBuf)> = vec![];
    let mut known_hit: BTreeMap<String, u64> = BTreeMap::new();
    let mut classes_done: BTreeSet<String> = BTreeSet::new();
    agg.violations.sort_by_key(|(_, h, _, _, _)| h.threads.iter().map(|t| t.len()).sum::<usize>());
    let total_viol = agg.violations.len();
    let mut unstable_reported = false;
    for (sub, h, class, vt, vc) in agg.violations.clone() {
        if let Some(f) = findings.iter().find(|f| f.status == "known" && f.signature == class) {
            *known_hit.entry(f.signature.clone()).or_default() += 1;
            continue;
        }
        if classes_done.contains(&class) || reported.len() >= 3 {
            continue;
        }
        // confirm it reproduces before calling it a violation
        let again = run_and_check(&h, &cfg, &oracle, false);
        if !has_class(&again, &class) {
            // Not reproducible from the plan: either the harness is at fault, or the call's outcome
            // varies from process to process (which the third clause forbids). Decide by asking
            // more fresh processes about that one call.
            if unstable_reported {
                continue;
            }
            if let Some(call) = h.threads.get(vt).and_then(|t| t.get(vc)) {
                let outs: Vec<Out> = (0..8).map(|k| oracle.single(call, k)).collect();
                let distinct: BTreeSet<String> = outs.iter().map(|o| o.to_json().to_string()).collect();
                if distinct.len() > 1 {
                    let _ = std::fs::create_dir_all(&cfg.replays);
                    let path = cfg.replays.join(format!("{}-unstable-across-processes-{}.json", PROP, sub));
                    let doc = json!({"property": PROP, "flavour": "fresh-processes", "violation": {"class": "fresh-processes-disagree", "detail": format!("the same call alone in 8 fresh processes gave {} different results", distinct.len()), "results": distinct}, "plan": {"threads": [[call]], "schedule": {"kind": "none"}, "faults": []}});
                    let text = serde_json::to_string_pretty(&doc).unwrap().replace(&cfg.tree_root.display().to_string(), "${TREE}");
                    std::fs::write(&path, text + "\n").unwrap();
                    reported.push(("fresh-processes-disagree".into(), path));
                    unstable_reported = true;
                    continue;
                }
            }
            harness_errors.lock().unwrap().push(format!("violation class {} of sub-seed {} did not reproduce", class, sub));
            continue;
        }
        classes_done.insert(class.clone());
        let (m, attempts) = minimise(&h, &class, &cfg, &oracle, 400);
        let rep = run_and_check(&m, &cfg, &oracle, true);
        let (m, rep) = if has_class(&rep, &class) { (m, rep) } else { (h.clone(), run_and_check(&h, &cfg, &oracle, true)) };
        let path = write_replay(&cfg, sub, &m, &rep, &class, attempts);
        reported.push((class.clone(), path));
    }

    for (k, (class, detail, doc)) in stage_violations.iter().enumerate() {
        if findings.iter().any(|f| f.status == "known" && f.signature == *class) {
            *known_hit.entry(class.clone()).or_default() += 1;
            continue;
        }
        let _ = std::fs::create_dir_all(&cfg.replays);
        let path = cfg.replays.join(format!("{}-rustc-stage-{}.json", PROP, k));
        let d = json!({"property": PROP, "flavour": "rustc-stage", "violation": {"class": class, "detail": detail}, "derives": doc["derives"], "how_to_replay": format!("./check C08 --replay {}", path.display())});
        std::fs::write(&path, serde_json::to_string_pretty(&d).unwrap() + "\n").unwrap();
        reported.push((format!("{} (rustc stage)", class), path));
    }
    {
        let mut mv = miri_violation_list;
        mv.sort_by_key(|(_, _, d)| d["plan"].to_string().len());
        let mut seen: BTreeSet<String> = BTreeSet::new();
        for (class, _detail, doc) in mv.into_iter() {
            if findings.iter().any(|f| f.status == "known" && f.signature == class) {
                *known_hit.entry(class.clone()).or_default() += 1;
                continue;
            }
            if !seen.insert(class.clone()) || seen.len() > 2 {
                continue;
            }
            let _ = std::fs::create_dir_all(&cfg.replays);
            let path = cfg.replays.join(format!("{}-miri-{}.json", PROP, doc["subseed"]));
            let mut d = doc.clone();
            d["how_to_replay"] = json!(format!("./check C08 --replay {}", path.display()));
            let text = serde_json::to_string_pretty(&d).unwrap().replace(&cfg.tree_root.display().to_string(), "${TREE}");
            std::fs::write(&path, text + "\n").unwrap();
            reported.push((format!("{} (Miri batch)", class), path));
        }
    }
    let hours = wall / 3600.0;
    let coverage = json!({
        "evaluations": agg.runs,
        "distinct_nontrivial": agg.distinct_nontrivial.len(),
        "rule": "one evaluation = one simulated history (1..16 caller threads x call lists x schedule source x fault plan) run in one fresh simulated process and compared call by call with fresh-process references; distinct = distinct (history, lock-acquisition order) fingerprints; non-trivial = at least 2 threads or at least one call that failed (panicked) inside a cache critical section",
        "samples": agg.samples,
        "distinct_histories_x_interleavings": agg.distinct.len(),
        "calls_checked_against_fresh_process_reference": agg.calls,
        "reference_processes_run": oracle.evaluated.load(Ordering::Relaxed),
        "distinct_calls_with_reference": oracle.memo.lock().unwrap().len(),
        "calls_excluded_because_reference_is_undefined": agg.ref_crash_calls,
        "simulated_steps_total": agg.steps,
        "simulated_time": "none: the code under test reads no clock on these paths; ordering is by scheduler step",
        "runs_per_hour": if hours > 0.0 { (agg.runs as f64 / hours) as u64 } else { 0 },
        "seeds": {"master": seed, "sub_seeds": agg.runs, "derivation": "splitmix64(master ^ fnv(batch tag)) ^ index"},
        "histories_by_flavour_and_batch": agg.by_flavour,
        "histories_by_thread_count": agg.by_threads.iter().map(|(k, v)| (k.to_string(), *v)).collect::<BTreeMap<_, _>>(),
        "fault_kinds": agg.fault_kinds,
        "scheduler_counters": agg.counters,
        "probes": agg.probes,
        "outcomes_by_kind": agg.outcome_kinds,
        "determinism": {"plans_run_twice_in_separate_processes": det_checked.load(Ordering::Relaxed), "diverging": det_diff.len(), "skipped_because_a_thread_blocked_outside_the_seam": det_degraded.load(Ordering::Relaxed)},
        "components": {
            "real": ["graphql_client_codegen (whole crate, from /repo working tree)", "graphql-parser", "graphql-introspection-query", "serde_json", "proc-macro2 fallback token streams", "std::fs on real files, symlinks, hard links", "std::sync::Mutex incl. poisoning (wrapped, not modelled)", "OS threads (parked; one runnable at a time)"],
            "simulated": ["choice of the running thread at every cache-lock attempt, at read_file open/read, and between calls", "transient read errors at the read_file fault point"],
            "stubbed": [],
        },
        "rustc_end_to_end_stage": stage_json,
        "miri_instruction_level_batch": miri_json,
        "seam": if cfg.hooked.is_some() { "hooked build (--cfg graphql_client_verif)" } else { "unavailable: sequential histories on the guard-off build only" },
        "violation_classes_seen": agg.violations.iter().map(|(_, _, c, _, _)| c.clone()).collect::<BTreeSet<_>>(),
        "known_findings_matched": known_hit,
    });
    let assumptions = vec![
        "threads of the library interact only through state reachable from the two cache mutexes (no unsafe, no atomics, no other statics in graphql_client_codegen); interleavings are explored at lock-operation granularity plus the in-critical-section yield in read_file".to_string(),
        "the file set is static during a process's life".to_string(),
        "outcome equality is by 128-bit fingerprint + length + class of the token-stream / error / panic text".to_string(),
    ];
    let unlisted = reported.len();
    if cmd != "selftest" {
        // (the determinism self-test explores nothing new: it must not overwrite the evidence)
        simcore::write_evidence(&cfg.evidence, PROP, &tier, seed, coverage, assumptions, wall, unlisted);
    } else {
        let _ = (&coverage, &assumptions);
    }

    for (sig, n) in &known_hit {
        let f = findings.iter().find(|f| &f.signature == sig).unwrap();
        println!("KNOWN-FINDING: property={} {} [{} histories]", PROP, f.what, n);
    }
    println!(
        "C08: {} histories, {} calls checked, {} distinct non-trivial interleavings, {} reference processes, determinism {}/{} identical, {:.1}s",
        agg.runs, agg.calls, agg.distinct_nontrivial.len(), oracle.evaluated.load(Ordering::Relaxed),
        det_checked.load(Ordering::Relaxed) as usize - det_diff.len(), det_checked.load(Ordering::Relaxed), wall
    );
    let errs = harness_errors.into_inner().unwrap();
    if !oracle.disagreements.lock().unwrap().is_empty() {
        // two fresh processes disagreeing on one call alone IS a violation of the third clause
        let d = oracle.disagreements.lock().unwrap();
        let call: Value = serde_json::from_str(&d[0]).unwrap_or(Value::Null);
        let h = History { threads: vec![vec![call]], schedule: json!({"kind":"none"}), faults: vec![], flavour: "plain-seq", fault_focused: false, labels: vec![] };
        let _ = std::fs::create_dir_all(&cfg.replays);
        let path = cfg.replays.join(format!("{}-fresh-process-disagreement.json", PROP));
        let doc = json!({"property": PROP, "violation": {"class": "fresh-processes-disagree", "detail": "the same call alone in two fresh processes gave different results"}, "flavour": "fresh-processes", "plan": {"threads": h.threads, "schedule": h.schedule, "faults": []}});
        std::fs::write(&path, serde_json::to_string_pretty(&doc).unwrap().replace(&cfg.tree_root.display().to_string(), "${TREE}")).unwrap();
        println!("violation class=fresh-processes-disagree");
        println!("VIOLATION property={} replay={}", PROP, path.display());
        std::process::exit(1);
    }
    if !reported.is_empty() {
        for (class, path) in &reported {
            println!("violation class={} ({} failing histories in total)", class, total_viol);
            println!("VIOLATION property={} replay={}", PROP, path.display());
        }
        std::process::exit(1);
    }
    if !errs.is_empty() {
        for e in errs {
            eprintln!("harness error: {}", e);
        }
        std::process::exit(2);
    }
    std::process::exit(0);
}
