//! End-to-end stage of C08 in the real deployment: sequences of `#[derive(GraphQLQuery)]` expanded
//! by ONE rustc process through the shipped (guard-off) proc-macro dylib.
//!
//! A generated cargo workspace holds one crate per history (k derives in a seeded order, some
//! pointing at missing / unparsable files) and one crate per distinct derive ("alone": a fresh
//! rustc process with nothing before it). One `cargo check --keep-going` compiles them all; each
//! crate is one rustc process, i.e. one simulated process. Oracle: the error diagnostics attached
//! to a derive inside a history equal those of the same derive alone.

use crate::tree::Tree;
use serde_json::{json, Value};
use simcore::Rng;
use std::collections::BTreeMap;
use std::path::{Path, PathBuf};
use std::process::Command;

#[derive(Clone, Debug, PartialEq, Eq, PartialOrd, Ord)]
pub struct Derive {
    pub struct_name: String,
    pub query: String,  // path relative to the tree root
    pub schema: String, // path relative to the tree root
    pub extra: String,  // further attribute text, e.g. `, response_derives = "Debug"`
    pub faulty: bool,
    /// "package mode": before this derive the compiler process's CARGO_MANIFEST_DIR is switched to
    /// this directory (relative to the tree root) and the paths are relative to it, as in a
    /// proc-macro server that expands derives of several packages in one process.
    /// `Some("")` = the variable is unset before the derive.
    pub pkg: Option<String>,
}

impl Derive {
    pub fn to_json(&self) -> Value {
        json!({"struct": self.struct_name, "query": self.query, "schema": self.schema, "extra": self.extra, "faulty": self.faulty, "pkg": self.pkg})
    }
    pub fn from_json(v: &Value) -> Derive {
        Derive {
            struct_name: v["struct"].as_str().unwrap_or("Q").to_string(),
            query: v["query"].as_str().unwrap_or("").to_string(),
            schema: v["schema"].as_str().unwrap_or("").to_string(),
            extra: v["extra"].as_str().unwrap_or("").to_string(),
            faulty: v["faulty"].as_bool().unwrap_or(false),
            pkg: v["pkg"].as_str().map(|s| s.to_string()),
        }
    }
}

pub struct StageResult {
    pub histories: usize,
    pub derives_checked: usize,
    pub alone_crates: usize,
    pub faulty_derives: usize,
    pub expansions_compared: usize,
    pub expansion_note: Option<String>,
    pub samples: Vec<Value>,
    /// (class, detail, replay document)
    pub violations: Vec<(String, String, Value)>,
    pub harness_error: Option<String>,
}

fn catalogue(tree: &Tree) -> Vec<Derive> {
    let mut v = vec![];
    for q in tree.fixtures.iter().filter(|f| !f.is_schema && !f.big && !f.deepbad) {
        for s in tree.fixtures.iter().filter(|f| f.is_schema && f.dir == q.dir && !f.big) {
            for op in &q.ops {
                v.push(Derive {
                    struct_name: op.clone(),
                    query: format!("fx/{}/{}", q.dir, q.file),
                    schema: format!("fx/{}/{}", s.dir, s.file),
                    extra: String::new(),
                    faulty: false,
                    pkg: None,
                });
            }
        }
    }
    v
}

/// Derives in "package mode": directories that hold both `query.graphql` and `schema.graphql`
/// (the same relative paths, different files).
fn package_catalogue(tree: &Tree) -> Vec<Derive> {
    let mut v = vec![];
    for q in tree.fixtures.iter().filter(|f| f.file == "query.graphql" && !f.deepbad) {
        if tree.fixtures.iter().any(|s| s.dir == q.dir && s.file == "schema.graphql") {
            for op in &q.ops {
                v.push(Derive { struct_name: op.clone(), query: "query.graphql".into(), schema: "schema.graphql".into(), extra: String::new(), faulty: false, pkg: Some(format!("fx/{}", q.dir)) });
            }
        }
    }
    v
}

pub fn generate_histories(seed: u64, n: usize, tree: &Tree) -> Vec<Vec<Derive>> {
    let cat = catalogue(tree);
    let pcat = package_catalogue(tree);
    // every attribute the derive understands, so that anything the proc-macro crate remembers
    // from one derive shows in a later derive with other attributes
    let extras = [
        "",
        ", response_derives = \"Debug\"",
        ", response_derives = \"Debug, PartialEq, Clone\"",
        ", variables_derives = \"Debug, Clone\"",
        ", deprecated = \"allow\"",
        ", deprecated = \"deny\"",
        ", skip_serializing_none",
        ", normalization = \"rust\"",
        ", fragments_other_variant = true",
        ", custom_scalars_module = \"crate::scalars\"",
        ", extern_enums(\"Color\", \"DistanceUnit\")",
        ", normalization = \"rust\", response_derives = \"Debug\", skip_serializing_none",
    ];
    let mut out = vec![];
    for i in 0..n {
        let mut rng = Rng::new(simcore::subseed(seed, "C08/rustc-stage", i as u64));
        if !pcat.is_empty() && rng.chance(1, 3) {
            // several packages served by one compiler process
            let k = rng.range(2, 6);
            let mut h: Vec<Derive> = (0..k).map(|_| rng.pick(&pcat).clone()).collect();
            if rng.chance(1, 3) {
                let mut d = rng.pick(&pcat).clone();
                d.pkg = Some(String::new()); // CARGO_MANIFEST_DIR unset: this derive must fail, the others not
                d.faulty = true;
                let pos = rng.below(h.len());
                h.insert(pos, d);
            }
            out.push(h);
            continue;
        }
        let k = rng.range(2, 10);
        let mut h = vec![];
        for _ in 0..k {
            let mut d = rng.pick(&cat).clone();
            if rng.chance(1, 2) {
                d.extra = rng.pick(&extras).to_string();
            }
            if rng.chance(1, 4) {
                let (rel, _) = rng.pick(&tree.bad).clone();
                if rng.chance(1, 2) {
                    d.query = rel;
                } else {
                    d.schema = rel;
                }
                d.faulty = true;
            }
            h.push(d);
        }
        if !h.iter().any(|d| d.faulty) && rng.chance(2, 3) {
            // a failing derive first, valid ones after it: the shape that matters most in practice
            let mut d = rng.pick(&cat).clone();
            d.query = rng.pick(&tree.bad).0.clone();
            d.faulty = true;
            let pos = rng.below(h.len());
            h.insert(pos, d);
        }
        out.push(h);
    }
    out
}

fn lib_rs(derives: &[Derive], tree_root: &str) -> (String, Vec<(usize, usize)>) {
    let mut s = String::from("#![allow(dead_code, unused_imports, non_camel_case_types, clippy::all)]\n");
    let mut ranges = vec![];
    let mut line = 2;
    for (i, d) in derives.iter().enumerate() {
        let (env_line, prefix) = match d.pkg.as_deref() {
            None => (String::new(), "../../../tree/".to_string()),
            Some("") => ("envhelper::unset_env!(\"CARGO_MANIFEST_DIR\");\n".to_string(), String::new()),
            Some(p) => (format!("envhelper::set_env!(\"CARGO_MANIFEST_DIR\", \"{}/{}\");\n", tree_root, p), String::new()),
        };
        let m = format!(
            "{env}pub mod d{i} {{\n    use graphql_client::GraphQLQuery;\n    type DateTime = String;\n    type URI = String;\n    type Date = String;\n    #[derive(GraphQLQuery)]\n    #[graphql(query_path = \"{p}{q}\", schema_path = \"{p}{s}\"{e})]\n    pub struct {n};\n}}\n",
            env = env_line,
            p = prefix,
            i = i,
            q = d.query,
            s = d.schema,
            e = d.extra,
            n = d.struct_name
        );
        let n = m.lines().count();
        ranges.push((line, line + n - 1));
        line += n;
        s.push_str(&m);
    }
    (s, ranges)
}

fn write_crate(ws: &Path, name: &str, derives: &[Derive], repo: &Path, tree_root: &str) -> Vec<(usize, usize)> {
    let dir = ws.join(name);
    std::fs::create_dir_all(dir.join("src")).unwrap();
    std::fs::write(
        dir.join("Cargo.toml"),
        format!(
            "[package]\nname = \"{}\"\nversion = \"0.0.0\"\nedition = \"2021\"\n\n[dependencies]\ngraphql_client = {{ path = \"{}/graphql_client\" }}\nserde = {{ version = \"1\", features = [\"derive\"] }}\nenvhelper = {{ path = \"../envhelper\" }}\n",
            name,
            repo.display()
        ),
    )
    .unwrap();
    let (src, ranges) = lib_rs(derives, tree_root);
    std::fs::write(dir.join("src/lib.rs"), src).unwrap();
    ranges
}

fn normalise(text: &str, crate_name: &str) -> String {
    // module index and crate directory differ between a history and the alone crate
    let mut t = text.replace(&format!("/{}/", crate_name), "/CRATE/");
    // `d<digits>` module names
    let mut out = String::new();
    let chars: Vec<char> = t.drain(..).collect();
    let mut i = 0;
    while i < chars.len() {
        if chars[i] == 'd' && (i == 0 || !chars[i - 1].is_alphanumeric()) && i + 1 < chars.len() && chars[i + 1].is_ascii_digit() {
            let mut j = i + 1;
            while j < chars.len() && chars[j].is_ascii_digit() {
                j += 1;
            }
            if j >= chars.len() || !chars[j].is_alphanumeric() {
                out.push_str("dN");
                i = j;
                continue;
            }
        }
        out.push(chars[i]);
        i += 1;
    }
    out
}

/// Runs the stage for explicit histories. `work` is /verif/.work/c08 (the tree lives at work/tree).
pub fn run(histories: &[Vec<Derive>], work: &Path, repo: &Path, target: &Path) -> StageResult {
    let ws = work.join("consumer").join("ws");
    let _ = std::fs::remove_dir_all(&ws);
    std::fs::create_dir_all(&ws).unwrap();
    // distinct derives -> alone crates
    let mut alone: BTreeMap<Derive, String> = BTreeMap::new();
    for h in histories {
        for d in h {
            let n = alone.len();
            alone.entry(d.clone()).or_insert_with(|| format!("alone{}", n));
        }
    }
    let tree_root = work.join("tree").display().to_string();
    // helper proc-macro crate: set_env!/unset_env! change the environment of the compiler process at
    // the point of expansion (expansion proceeds in source order)
    let eh = ws.join("envhelper");
    std::fs::create_dir_all(eh.join("src")).unwrap();
    std::fs::write(eh.join("Cargo.toml"), "[package]\nname = \"envhelper\"\nversion = \"0.0.0\"\nedition = \"2021\"\n[lib]\nproc-macro = true\n").unwrap();
    std::fs::write(
        eh.join("src/lib.rs"),
        "extern crate proc_macro;\nuse proc_macro::{TokenStream, TokenTree};\nfn strings(input: TokenStream) -> Vec<String> {\n    input.into_iter().filter_map(|t| match t { TokenTree::Literal(l) => Some(l.to_string().trim_matches('\"').to_string()), _ => None }).collect()\n}\n#[proc_macro]\npub fn set_env(input: TokenStream) -> TokenStream {\n    let s = strings(input);\n    std::env::set_var(&s[0], &s[1]);\n    TokenStream::new()\n}\n#[proc_macro]\npub fn unset_env(input: TokenStream) -> TokenStream {\n    let s = strings(input);\n    std::env::remove_var(&s[0]);\n    TokenStream::new()\n}\n",
    )
    .unwrap();
    let mut members = vec!["envhelper".to_string()];
    let mut ranges: BTreeMap<String, Vec<(usize, usize)>> = BTreeMap::new();
    for (d, name) in &alone {
        ranges.insert(name.clone(), write_crate(&ws, name, std::slice::from_ref(d), repo, &tree_root));
        members.push(name.clone());
    }
    for (i, h) in histories.iter().enumerate() {
        let name = format!("hist{}", i);
        ranges.insert(name.clone(), write_crate(&ws, &name, h, repo, &tree_root));
        members.push(name);
    }
    std::fs::write(
        ws.join("Cargo.toml"),
        format!("[workspace]\nresolver = \"2\"\nmembers = [{}]\n", members.iter().map(|m| format!("\"{}\"", m)).collect::<Vec<_>>().join(", ")),
    )
    .unwrap();
    let _ = std::fs::copy(repo.join("Cargo.lock"), ws.join("Cargo.lock"));
    let out = Command::new("cargo")
        .args(["check", "--offline", "--workspace", "--keep-going", "--message-format=json", "--target-dir"])
        .arg(target)
        .current_dir(&ws)
        .env("CARGO_NET_OFFLINE", "true")
        .env("CARGO_TERM_COLOR", "never")
        .env_remove("RUSTFLAGS")
        .output();
    let out = match out {
        Ok(o) => o,
        Err(e) => {
            return StageResult { histories: 0, derives_checked: 0, alone_crates: 0, faulty_derives: 0, expansions_compared: 0, expansion_note: None, samples: vec![], violations: vec![], harness_error: Some(format!("cannot run cargo: {}", e)) }
        }
    };
    // crate -> derive index -> list of normalised error texts
    let mut diags: BTreeMap<String, BTreeMap<usize, Vec<String>>> = BTreeMap::new();
    let mut finished: BTreeMap<String, bool> = BTreeMap::new();
    for line in String::from_utf8_lossy(&out.stdout).lines() {
        let Ok(v) = serde_json::from_str::<Value>(line) else { continue };
        let crate_name = v["target"]["name"].as_str().unwrap_or("").to_string();
        match v["reason"].as_str() {
            Some("compiler-artifact") => {
                if ranges.contains_key(&crate_name) {
                    finished.insert(crate_name, true);
                }
            }
            Some("compiler-message") => {
                if !ranges.contains_key(&crate_name) || v["message"]["level"] != "error" {
                    continue;
                }
                finished.entry(crate_name.clone()).or_insert(false); // rustc ran on this crate
                let msg = &v["message"];
                let line_no = msg["spans"].as_array().and_then(|s| s.iter().find(|sp| sp["is_primary"] == true).or(s.first())).and_then(|sp| sp["line_start"].as_u64());
                let Some(line_no) = line_no else { continue }; // "aborting due to…" summary lines
                let idx = ranges[&crate_name].iter().position(|(a, b)| (line_no as usize) >= *a && (line_no as usize) <= *b);
                let Some(idx) = idx else { continue };
                let mut text = msg["message"].as_str().unwrap_or("").to_string();
                // Only what the derive itself reports is compared: a panic of the macro, or the
                // compile_error! it emits for a generation error. Errors rustc finds later in the
                // generated code (missing scalar types, name clashes) are worded depending on the
                // rest of the crate; for those derives the expanded code itself is compared below.
                if !(text.contains("derive panicked") || text.contains("Failed to generate GraphQLQuery impl") || text.contains("CARGO_MANIFEST_DIR") || text.contains("ttribute")) {
                    continue;
                }
                // rustc's notes and suggestions ("a similar name exists in module …") depend on the
                // rest of the crate and are not part of what the derive produced; only a derive
                // panic carries its text in a child ("message: …")
                if text.contains("derive panicked") {
                    if let Some(ch) = msg["children"].as_array() {
                        for c in ch {
                            text.push_str(" | ");
                            text.push_str(c["message"].as_str().unwrap_or(""));
                        }
                    }
                }
                diags.entry(crate_name.clone()).or_default().entry(idx).or_default().push(normalise(&text, &crate_name));
                finished.entry(crate_name).or_insert(false);
            }
            _ => {}
        }
    }
    // every member must have been compiled (artifact) or have produced an error
    let stderr = String::from_utf8_lossy(&out.stderr).to_string();
    for m in members.iter().filter(|m| *m != "envhelper") {
        if !finished.contains_key(m) && !diags.contains_key(m) {
            let tail: String = stderr.lines().rev().take(12).collect::<Vec<_>>().into_iter().rev().collect::<Vec<_>>().join("\n");
            return StageResult { histories: 0, derives_checked: 0, alone_crates: 0, faulty_derives: 0, expansions_compared: 0, expansion_note: None, samples: vec![], violations: vec![], harness_error: Some(format!("crate {} produced neither an artifact nor an error diagnostic; cargo said:\n{}", m, tail)) };
        }
    }
    // second pass (when a nightly toolchain is present): the macro-expanded source of every crate,
    // obtained through a RUSTC_WRAPPER that re-runs rustc with -Zunpretty=expanded for the
    // generated crates. This is what lets the stage compare the code of VALID derives.
    let expanded = expansions(&ws, work, target);
    let mut res = StageResult { histories: histories.len(), derives_checked: 0, alone_crates: alone.len(), faulty_derives: 0, expansions_compared: 0, expansion_note: expanded.as_ref().err().cloned(), samples: vec![], violations: vec![], harness_error: None };
    let expanded = expanded.unwrap_or_default();
    let empty: Vec<String> = vec![];
    for (i, h) in histories.iter().enumerate() {
        let hname = format!("hist{}", i);
        let mut kinds = vec![];
        for (j, d) in h.iter().enumerate() {
            let aname = &alone[d];
            let exp = diags.get(aname).and_then(|m| m.get(&0)).unwrap_or(&empty);
            let got = diags.get(&hname).and_then(|m| m.get(&j)).unwrap_or(&empty);
            res.derives_checked += 1;
            if d.faulty {
                res.faulty_derives += 1;
            }
            kinds.push(if got.is_empty() { "ok" } else { "error" });
            if exp == got && got.is_empty() {
                // both expanded without error: the generated code must be the same, too
                if let (Some(a), Some(b)) = (expanded.get(aname).and_then(|m| m.first()), expanded.get(&hname).and_then(|m| m.get(j))) {
                    res.expansions_compared += 1;
                    if a != b {
                        let at = a.bytes().zip(b.bytes()).position(|(x, y)| x != y).unwrap_or(a.len().min(b.len()));
                        let ctx = |z: &str| z[z.char_indices().map(|(i, _)| i).filter(|i| *i <= at.saturating_sub(80)).last().unwrap_or(0)..].chars().take(200).collect::<String>();
                        res.violations.push((
                            "rustc-stage:expansion-differs".to_string(),
                            format!("derive #{} ({} on {}) expands differently inside a crate with {} derives than alone: alone …{}… / in sequence …{}…", j, d.struct_name, d.query, h.len(), ctx(a), ctx(b)),
                            json!({"derives": h.iter().map(|d| d.to_json()).collect::<Vec<_>>(), "offending_index": j}),
                        ));
                        break;
                    }
                }
            }
            if exp != got {
                let class = if got.iter().any(|g| g.contains("poisoned")) { "poison-propagation" } else { "rustc-stage:derive-diagnostics-differ" };
                res.violations.push((
                    class.to_string(),
                    format!("derive #{} ({} on {}) in a crate with {} derives: alone {:?}, in sequence {:?}", j, d.struct_name, d.query, h.len(), exp, got),
                    json!({"derives": h.iter().map(|d| d.to_json()).collect::<Vec<_>>(), "offending_index": j}),
                ));
                break;
            }
        }
        if res.samples.len() < 2 {
            res.samples.push(json!({"crate": hname, "derives": h.iter().map(|d| d.to_json()).collect::<Vec<_>>(), "diagnostics_per_derive": kinds}));
        }
    }
    res
}

/// crate name -> expanded text of each `pub mod d<i>` (module names normalised)
fn expansions(ws: &Path, work: &Path, target: &Path) -> Result<BTreeMap<String, Vec<String>>, String> {
    let out_dir = work.join("consumer").join("expanded");
    let _ = std::fs::remove_dir_all(&out_dir);
    std::fs::create_dir_all(&out_dir).map_err(|e| e.to_string())?;
    let wrapper = work.join("consumer").join("rustc_wrapper.sh");
    std::fs::write(
        &wrapper,
        "#!/bin/sh\nrustc=\"$1\"; shift\nname=\"\"; prev=\"\"\nfor a in \"$@\"; do if [ \"$prev\" = \"--crate-name\" ]; then name=\"$a\"; fi; prev=\"$a\"; done\ncase \"$name\" in hist*|alone*) \"$rustc\" \"$@\" -Zunpretty=expanded > \"$EXPAND_OUT/$name.rs\" 2>/dev/null || true ;; esac\nexec \"$rustc\" \"$@\"\n",
    )
    .map_err(|e| e.to_string())?;
    use std::os::unix::fs::PermissionsExt;
    std::fs::set_permissions(&wrapper, std::fs::Permissions::from_mode(0o755)).map_err(|e| e.to_string())?;
    let nightly_target = target.parent().unwrap_or(target).join("consumer-nightly");
    let out = Command::new("cargo")
        .arg(std::env::var("VERIF_NIGHTLY").unwrap_or_else(|_| "+nightly".into()))
        .args(["check", "--offline", "--workspace", "--keep-going", "-q", "--target-dir"])
        .arg(&nightly_target)
        .current_dir(ws)
        .env("CARGO_NET_OFFLINE", "true")
        .env("RUSTC_WRAPPER", &wrapper)
        .env("EXPAND_OUT", &out_dir)
        .env_remove("RUSTFLAGS")
        .output()
        .map_err(|e| format!("cannot run cargo +nightly: {}", e))?;
    let _ = out; // errors of faulty derives are expected; what counts is which files appeared
    let mut map = BTreeMap::new();
    let rd = std::fs::read_dir(&out_dir).map_err(|e| e.to_string())?;
    for e in rd.filter_map(|e| e.ok()) {
        let name = e.file_name().to_string_lossy().trim_end_matches(".rs").to_string();
        let text = std::fs::read_to_string(e.path()).unwrap_or_default();
        let mut mods: Vec<String> = vec![];
        let mut cur: Option<String> = None;
        for line in text.lines() {
            let is_start = line.starts_with("pub mod d") && line.ends_with('{') && line["pub mod d".len()..line.len() - 1].trim().chars().all(|c| c.is_ascii_digit());
            if is_start {
                if let Some(c) = cur.take() {
                    mods.push(c);
                }
                cur = Some(String::new());
                continue;
            }
            if let Some(c) = cur.as_mut() {
                c.push_str(line);
                c.push('\n');
            }
        }
        if let Some(c) = cur.take() {
            mods.push(c);
        }
        map.insert(name.clone(), mods.into_iter().map(|m| normalise(&m, &name)).collect());
    }
    if map.is_empty() {
        return Err("no expansions were produced (nightly toolchain or -Zunpretty=expanded unavailable)".into());
    }
    Ok(map)
}

pub fn target_dir(verif_target: &Path) -> PathBuf {
    verif_target.join("consumer")
}
