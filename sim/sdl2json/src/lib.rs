//! The stub endpoint's "executor": turns an SDL document into the introspection result a server
//! for that schema would return. Types keep their declaration order, `extend type` is folded into
//! its type, the built-in scalars are appended. `isOneOf` / `specifiedByURL` are emitted only when
//! the received query selects them.

use graphql_parser::schema::{
    Definition, Document, EnumType, Field, InputObjectType, InputValue, InterfaceType, ObjectType,
    ScalarType, Type, TypeDefinition, TypeExtension, UnionType,
};
use serde_json::{json, Value};
use std::collections::BTreeMap;

const BUILTIN: [&str; 5] = ["Int", "Float", "String", "Boolean", "ID"];

pub struct Converted {
    pub schema: Value,
    /// true when the SDL uses a construct whose introspection rendering is arguable
    /// (then the "same code as the SDL" clause is not evaluated for it)
    pub arguable: Vec<String>,
    pub has_one_of: bool,
}

fn kinds<'a>(doc: &'a Document<'a, String>) -> BTreeMap<String, &'static str> {
    let mut m = BTreeMap::new();
    for b in BUILTIN {
        m.insert(b.to_string(), "SCALAR");
    }
    for d in &doc.definitions {
        if let Definition::TypeDefinition(t) = d {
            let (n, k) = match t {
                TypeDefinition::Scalar(s) => (&s.name, "SCALAR"),
                TypeDefinition::Object(s) => (&s.name, "OBJECT"),
                TypeDefinition::Interface(s) => (&s.name, "INTERFACE"),
                TypeDefinition::Union(s) => (&s.name, "UNION"),
                TypeDefinition::Enum(s) => (&s.name, "ENUM"),
                TypeDefinition::InputObject(s) => (&s.name, "INPUT_OBJECT"),
            };
            m.insert(n.clone(), k);
        }
    }
    m
}

fn type_ref(t: &Type<'_, String>, kinds: &BTreeMap<String, &'static str>, arguable: &mut Vec<String>) -> Value {
    match t {
        Type::NamedType(n) => {
            let k = kinds.get(n).copied().unwrap_or_else(|| {
                arguable.push(format!("unknown type {}", n));
                "SCALAR"
            });
            json!({"kind": k, "name": n, "ofType": null})
        }
        Type::ListType(inner) => json!({"kind": "LIST", "name": null, "ofType": type_ref(inner, kinds, arguable)}),
        Type::NonNullType(inner) => json!({"kind": "NON_NULL", "name": null, "ofType": type_ref(inner, kinds, arguable)}),
    }
}

fn named_ref(n: &str, kinds: &BTreeMap<String, &'static str>) -> Value {
    json!({"kind": kinds.get(n).copied().unwrap_or("OBJECT"), "name": n, "ofType": null})
}

fn input_value(v: &InputValue<'_, String>, kinds: &BTreeMap<String, &'static str>, arguable: &mut Vec<String>) -> Value {
    json!({
        "name": v.name,
        "description": v.description,
        "type": type_ref(&v.value_type, kinds, arguable),
        "defaultValue": v.default_value.as_ref().map(|d| d.to_string()),
    })
}

fn deprecation(directives: &[graphql_parser::schema::Directive<'_, String>], arguable: &mut Vec<String>) -> (bool, Value) {
    match directives.iter().find(|d| d.name == "deprecated") {
        None => (false, Value::Null),
        Some(d) => match d.arguments.iter().find(|(n, _)| n == "reason") {
            Some((_, graphql_parser::query::Value::String(s))) => (true, json!(s)),
            Some(_) => {
                arguable.push("@deprecated with a non-string reason".into());
                (true, Value::Null)
            }
            None => {
                // Servers differ here: some report the directive's default reason, others (those
                // that keep "no reason given" apart) report null. This stub is of the second
                // kind; under that rendering both schema front-ends must agree.
                (true, Value::Null)
            }
        },
    }
}

fn field(f: &Field<'_, String>, kinds: &BTreeMap<String, &'static str>, arguable: &mut Vec<String>) -> Value {
    let (dep, reason) = deprecation(&f.directives, arguable);
    json!({
        "name": f.name,
        "description": f.description,
        "args": f.arguments.iter().map(|a| input_value(a, kinds, arguable)).collect::<Vec<_>>(),
        "type": type_ref(&f.field_type, kinds, arguable),
        "isDeprecated": dep,
        "deprecationReason": reason,
    })
}

struct Flags {
    one_of: bool,
    specified_by: bool,
}

fn base(kind: &str, name: &str, description: &Option<String>, flags: &Flags) -> serde_json::Map<String, Value> {
    let mut m = serde_json::Map::new();
    m.insert("kind".into(), json!(kind));
    m.insert("name".into(), json!(name));
    m.insert("description".into(), json!(description));
    for k in ["fields", "inputFields", "interfaces", "enumValues", "possibleTypes"] {
        m.insert(k.into(), Value::Null);
    }
    if flags.one_of {
        m.insert("isOneOf".into(), if kind == "INPUT_OBJECT" { json!(false) } else { Value::Null });
    }
    if flags.specified_by {
        m.insert("specifiedByURL".into(), Value::Null);
    }
    m
}

fn scalar(s: &ScalarType<'_, String>, flags: &Flags) -> Value {
    let mut m = base("SCALAR", &s.name, &s.description, flags);
    if flags.specified_by {
        if let Some(d) = s.directives.iter().find(|d| d.name == "specifiedBy") {
            if let Some((_, graphql_parser::query::Value::String(u))) = d.arguments.iter().find(|(n, _)| n == "url") {
                m.insert("specifiedByURL".into(), json!(u));
            }
        }
    }
    Value::Object(m)
}

fn object(o: &ObjectType<'_, String>, exts: &[&graphql_parser::schema::ObjectTypeExtension<'_, String>], kinds: &BTreeMap<String, &'static str>, flags: &Flags, arguable: &mut Vec<String>) -> Value {
    let mut m = base("OBJECT", &o.name, &o.description, flags);
    let mut fields: Vec<Value> = o.fields.iter().map(|f| field(f, kinds, arguable)).collect();
    let mut ifaces: Vec<Value> = o.implements_interfaces.iter().map(|n| named_ref(n, kinds)).collect();
    for e in exts {
        fields.extend(e.fields.iter().map(|f| field(f, kinds, arguable)));
        ifaces.extend(e.implements_interfaces.iter().map(|n| named_ref(n, kinds)));
    }
    m.insert("fields".into(), json!(fields));
    m.insert("interfaces".into(), json!(ifaces));
    Value::Object(m)
}

fn interface(i: &InterfaceType<'_, String>, doc: &Document<'_, String>, kinds: &BTreeMap<String, &'static str>, flags: &Flags, arguable: &mut Vec<String>) -> Value {
    let mut m = base("INTERFACE", &i.name, &i.description, flags);
    m.insert("fields".into(), json!(i.fields.iter().map(|f| field(f, kinds, arguable)).collect::<Vec<_>>()));
    m.insert("interfaces".into(), json!(i.implements_interfaces.iter().map(|n| named_ref(n, kinds)).collect::<Vec<_>>()));
    let mut possible = vec![];
    for d in &doc.definitions {
        match d {
            Definition::TypeDefinition(TypeDefinition::Object(o)) if o.implements_interfaces.contains(&i.name) => {
                possible.push(named_ref(&o.name, kinds))
            }
            Definition::TypeExtension(TypeExtension::Object(e)) if e.implements_interfaces.contains(&i.name) => {
                possible.push(named_ref(&e.name, kinds))
            }
            _ => {}
        }
    }
    m.insert("possibleTypes".into(), json!(possible));
    Value::Object(m)
}

fn union(u: &UnionType<'_, String>, kinds: &BTreeMap<String, &'static str>, flags: &Flags) -> Value {
    let mut m = base("UNION", &u.name, &u.description, flags);
    m.insert("possibleTypes".into(), json!(u.types.iter().map(|n| named_ref(n, kinds)).collect::<Vec<_>>()));
    Value::Object(m)
}

fn enumeration(e: &EnumType<'_, String>, flags: &Flags, arguable: &mut Vec<String>) -> Value {
    let mut m = base("ENUM", &e.name, &e.description, flags);
    let mut scratch = vec![];
    let values: Vec<Value> = e
        .values
        .iter()
        .map(|v| {
            // deprecation of enum values is not used by the generator; render it, never "arguable"
            let (dep, reason) = deprecation(&v.directives, &mut scratch);
            json!({"name": v.name, "description": v.description, "isDeprecated": dep, "deprecationReason": reason})
        })
        .collect();
    let _ = arguable;
    m.insert("enumValues".into(), json!(values));
    Value::Object(m)
}

fn input(i: &InputObjectType<'_, String>, kinds: &BTreeMap<String, &'static str>, flags: &Flags, arguable: &mut Vec<String>, has_one_of: &mut bool) -> Value {
    let mut m = base("INPUT_OBJECT", &i.name, &i.description, flags);
    m.insert("inputFields".into(), json!(i.fields.iter().map(|f| input_value(f, kinds, arguable)).collect::<Vec<_>>()));
    if i.directives.iter().any(|d| d.name == "oneOf") {
        *has_one_of = true;
        if flags.one_of {
            m.insert("isOneOf".into(), json!(true));
        }
    }
    Value::Object(m)
}

/// `query_text` is the document the client sent: it decides which optional members are present.
pub fn convert(sdl: &str, query_text: &str) -> Result<Converted, String> {
    let doc: Document<'_, String> = graphql_parser::parse_schema(sdl).map_err(|e| e.to_string())?;
    // With a query text, the complete result is built and then projected onto what the query
    // selects (see `project`); without one (schema files for the C08 tree) the classic shape is
    // produced directly.
    let full = !query_text.trim().is_empty();
    let flags = Flags { one_of: full, specified_by: full };
    let kinds = kinds(&doc);
    let mut arguable = vec![];
    let mut has_one_of = false;
    let mut types = vec![];
    let mut declared_builtin = vec![];
    for d in &doc.definitions {
        match d {
            Definition::TypeDefinition(t) => match t {
                TypeDefinition::Scalar(s) => {
                    if BUILTIN.contains(&s.name.as_str()) {
                        declared_builtin.push(s.name.clone());
                        arguable.push(format!("SDL declares the built-in scalar {}", s.name));
                    }
                    types.push(scalar(s, &flags))
                }
                TypeDefinition::Object(o) => {
                    let exts: Vec<_> = doc
                        .definitions
                        .iter()
                        .filter_map(|d| match d {
                            Definition::TypeExtension(TypeExtension::Object(e)) if e.name == o.name => Some(e),
                            _ => None,
                        })
                        .collect();
                    types.push(object(o, &exts, &kinds, &flags, &mut arguable))
                }
                TypeDefinition::Interface(i) => types.push(interface(i, &doc, &kinds, &flags, &mut arguable)),
                TypeDefinition::Union(u) => types.push(union(u, &kinds, &flags)),
                TypeDefinition::Enum(e) => types.push(enumeration(e, &flags, &mut arguable)),
                TypeDefinition::InputObject(i) => types.push(input(i, &kinds, &flags, &mut arguable, &mut has_one_of)),
            },
            Definition::TypeExtension(TypeExtension::Object(e)) => {
                if !kinds.contains_key(&e.name) {
                    arguable.push(format!("extension of undefined type {}", e.name));
                }
            }
            Definition::TypeExtension(_) => arguable.push("non-object type extension".into()),
            _ => {}
        }
    }
    for b in BUILTIN {
        if !declared_builtin.iter().any(|d| d == b) {
            let m = base("SCALAR", b, &None, &flags);
            types.push(Value::Object(m));
        }
    }
    let schema_def = doc.definitions.iter().find_map(|d| match d {
        Definition::SchemaDefinition(s) => Some(s),
        _ => None,
    });
    let root = |explicit: Option<&String>, default: &str| -> Value {
        match (schema_def, explicit) {
            (Some(_), Some(n)) => json!({"name": n}),
            (Some(_), None) => Value::Null,
            (None, _) => {
                if kinds.get(default) == Some(&"OBJECT") {
                    json!({"name": default})
                } else {
                    Value::Null
                }
            }
        }
    };
    let schema = json!({
        "queryType": root(schema_def.and_then(|s| s.query.as_ref()), "Query"),
        "mutationType": root(schema_def.and_then(|s| s.mutation.as_ref()), "Mutation"),
        "subscriptionType": root(schema_def.and_then(|s| s.subscription.as_ref()), "Subscription"),
        "types": types,
        "directives": [],
    });
    let schema = if full {
        let data = project_query(&json!({"__schema": schema}), query_text)?;
        data["__schema"].clone()
    } else {
        schema
    };
    Ok(Converted { schema, arguable, has_one_of })
}

use graphql_parser::query as q;

fn arg_true(f: &q::Field<'_, String>, name: &str) -> bool {
    f.arguments.iter().any(|(n, v)| n == name && matches!(v, q::Value::Boolean(true)))
}

fn apply(o: &serde_json::Map<String, Value>, sel: &q::SelectionSet<'_, String>, frags: &BTreeMap<String, &q::FragmentDefinition<'_, String>>, out: &mut serde_json::Map<String, Value>, depth: usize) {
    if depth > 64 {
        return;
    }
    for item in &sel.items {
        match item {
            q::Selection::Field(f) => {
                let key = f.alias.clone().unwrap_or_else(|| f.name.clone());
                let mut v = o.get(&f.name).cloned().unwrap_or(Value::Null);
                // a server leaves deprecated members out unless asked for them
                if (f.name == "fields" || f.name == "enumValues") && !arg_true(f, "includeDeprecated") {
                    if let Value::Array(a) = &mut v {
                        a.retain(|e| e["isDeprecated"] != json!(true));
                    }
                }
                let pv = if f.selection_set.items.is_empty() { v } else { project(&v, &f.selection_set, frags, depth + 1) };
                out.insert(key, pv);
            }
            q::Selection::FragmentSpread(sp) => {
                if let Some(fr) = frags.get(&sp.fragment_name) {
                    apply(o, &fr.selection_set, frags, out, depth + 1);
                }
            }
            q::Selection::InlineFragment(i) => apply(o, &i.selection_set, frags, out, depth + 1),
        }
    }
}

fn project(v: &Value, sel: &q::SelectionSet<'_, String>, frags: &BTreeMap<String, &q::FragmentDefinition<'_, String>>, depth: usize) -> Value {
    match v {
        Value::Array(a) => Value::Array(a.iter().map(|x| project(x, sel, frags, depth)).collect()),
        Value::Object(o) => {
            let mut out = serde_json::Map::new();
            apply(o, sel, frags, &mut out, depth);
            Value::Object(out)
        }
        other => other.clone(),
    }
}

/// The stub endpoint's executor proper: evaluates the (introspection) query document against the
/// complete introspection data: only what the document selects is returned, `includeDeprecated`
/// is honoured, fragments are expanded. Unknown fields evaluate to null.
pub fn project_query(data: &Value, query_text: &str) -> Result<Value, String> {
    let doc: q::Document<'_, String> = graphql_parser::parse_query(query_text).map_err(|e| format!("query does not parse: {}", e))?;
    let mut frags = BTreeMap::new();
    let mut op: Option<&q::SelectionSet<'_, String>> = None;
    for d in &doc.definitions {
        match d {
            q::Definition::Fragment(f) => {
                frags.insert(f.name.clone(), f);
            }
            q::Definition::Operation(o) => {
                if op.is_none() {
                    op = Some(match o {
                        q::OperationDefinition::Query(x) => &x.selection_set,
                        q::OperationDefinition::SelectionSet(x) => x,
                        q::OperationDefinition::Mutation(x) => &x.selection_set,
                        q::OperationDefinition::Subscription(x) => &x.selection_set,
                    });
                }
            }
        }
    }
    let sel = op.ok_or_else(|| "no operation in the query document".to_string())?;
    Ok(project(data, sel, &frags, 0))
}
