//! Shared pieces of the deterministic simulators: the one PRNG every choice is drawn from,
//! stable hashing for event logs, and small helpers for evidence / known-findings files.
//!
//! Nothing in here reads a clock or the environment except `env_seed` / `env_tier`, which are
//! called once at start-up by the drivers.

use serde_json::{json, Value};
use std::path::Path;

/// Default seed: fixed, so that the unchanged tree gives the same verdict on every invocation.
pub const DEFAULT_SEED: u64 = 20_261_002;

pub fn splitmix64(state: &mut u64) -> u64 {
    *state = state.wrapping_add(0x9E37_79B9_7F4A_7C15);
    let mut z = *state;
    z = (z ^ (z >> 30)).wrapping_mul(0xBF58_476D_1CE4_E5B9);
    z = (z ^ (z >> 27)).wrapping_mul(0x94D0_49BB_1331_11EB);
    z ^ (z >> 31)
}

/// Sub-seed of run `i` of the batch `tag` under the master seed.
pub fn subseed(master: u64, tag: &str, i: u64) -> u64 {
    let mut s = master ^ fnv64(tag.as_bytes(), 0xcbf2_9ce4_8422_2325);
    let a = splitmix64(&mut s);
    let mut t = a ^ i.wrapping_mul(0xD6E8_FEB8_6659_FD93);
    splitmix64(&mut t)
}

/// xoshiro256** — implemented here so that the stream never depends on a crate version.
#[derive(Clone, Debug)]
pub struct Rng {
    s: [u64; 4],
    pub draws: u64,
}

impl Rng {
    pub fn new(seed: u64) -> Rng {
        let mut sm = seed;
        let s = [
            splitmix64(&mut sm),
            splitmix64(&mut sm),
            splitmix64(&mut sm),
            splitmix64(&mut sm),
        ];
        Rng { s, draws: 0 }
    }
    pub fn next_u64(&mut self) -> u64 {
        self.draws += 1;
        let result = self.s[1].wrapping_mul(5).rotate_left(7).wrapping_mul(9);
        let t = self.s[1] << 17;
        self.s[2] ^= self.s[0];
        self.s[3] ^= self.s[1];
        self.s[1] ^= self.s[2];
        self.s[0] ^= self.s[3];
        self.s[2] ^= t;
        self.s[3] = self.s[3].rotate_left(45);
        result
    }
    /// Uniform in 0..n (n > 0). Slight modulo bias is irrelevant here.
    pub fn below(&mut self, n: usize) -> usize {
        assert!(n > 0);
        (self.next_u64() % n as u64) as usize
    }
    /// Uniform in lo..=hi.
    pub fn range(&mut self, lo: usize, hi: usize) -> usize {
        lo + self.below(hi - lo + 1)
    }
    pub fn chance(&mut self, num: u32, den: u32) -> bool {
        (self.next_u64() % den as u64) < num as u64
    }
    pub fn pick<'a, T>(&mut self, xs: &'a [T]) -> &'a T {
        &xs[self.below(xs.len())]
    }
    pub fn shuffle<T>(&mut self, xs: &mut [T]) {
        for i in (1..xs.len()).rev() {
            let j = self.below(i + 1);
            xs.swap(i, j);
        }
    }
    /// A fresh, independent generator derived from this one.
    pub fn fork(&mut self) -> Rng {
        Rng::new(self.next_u64())
    }
}

pub fn fnv64(bytes: &[u8], basis: u64) -> u64 {
    let mut h = basis;
    for b in bytes {
        h ^= *b as u64;
        h = h.wrapping_mul(0x0000_0100_0000_01B3);
    }
    h
}

/// 128-bit content fingerprint (two independent 64-bit FNV-1a passes), hex.
pub fn fingerprint(bytes: &[u8]) -> String {
    let a = fnv64(bytes, 0xcbf2_9ce4_8422_2325);
    let mut b = 0x84222325_cbf29ce4u64;
    for x in bytes.iter().rev() {
        b = (b ^ (*x as u64)).wrapping_mul(0x9E37_79B9_7F4A_7C15).rotate_left(23);
    }
    format!("{:016x}{:016x}", a, b)
}

pub fn env_seed() -> u64 {
    match std::env::var("VERIF_SEED") {
        Ok(s) if !s.trim().is_empty() => s.trim().parse::<u64>().unwrap_or_else(|_| {
            // any string is accepted: hash it
            fnv64(s.as_bytes(), 0xcbf2_9ce4_8422_2325)
        }),
        _ => DEFAULT_SEED,
    }
}

pub fn env_tier(default: &str) -> String {
    match std::env::var("VERIF_TIER") {
        Ok(s) if s == "quick" || s == "thorough" => s,
        _ => default.to_string(),
    }
}

pub fn env_usize(name: &str, default: usize) -> usize {
    std::env::var(name)
        .ok()
        .and_then(|s| s.parse().ok())
        .unwrap_or(default)
}

/// One entry of `/verif/known_findings.json`.
#[derive(Clone, Debug)]
pub struct Finding {
    pub property: String,
    pub status: String, // "known" | "fixed"
    pub signature: String,
    pub what: String,
}

/// Loads the committed known-findings file. Never written at run time.
pub fn load_findings(path: &Path, property: &str) -> Vec<Finding> {
    let text = match std::fs::read_to_string(path) {
        Ok(t) => t,
        Err(_) => return vec![],
    };
    let v: Value = match serde_json::from_str(&text) {
        Ok(v) => v,
        Err(e) => {
            eprintln!("harness error: {} is not valid JSON: {}", path.display(), e);
            std::process::exit(2);
        }
    };
    v.get("findings")
        .and_then(|f| f.as_array())
        .map(|a| {
            a.iter()
                .filter(|e| e["property"].as_str() == Some(property))
                .map(|e| Finding {
                    property: property.to_string(),
                    status: e["status"].as_str().unwrap_or("known").to_string(),
                    signature: e["signature"].as_str().unwrap_or("").to_string(),
                    what: e["what"].as_str().unwrap_or("").to_string(),
                })
                .collect()
        })
        .unwrap_or_default()
}

/// Writes `/verif/evidence/<id>.json` atomically (write + rename).
pub fn write_evidence(
    dir: &Path,
    property: &str,
    tier: &str,
    seed: u64,
    coverage: Value,
    assumptions: Vec<String>,
    wall_s: f64,
    violations: usize,
) {
    let v = json!({
        "property_id": property,
        "tier": tier,
        "seed": seed,
        "level": "exploration",
        "coverage": coverage,
        "assumptions": assumptions,
        "wall_s": (wall_s * 1000.0).round() / 1000.0,
        "violations": violations,
    });
    let _ = std::fs::create_dir_all(dir);
    let tmp = dir.join(format!(".{}.json.tmp", property));
    let dst = dir.join(format!("{}.json", property));
    std::fs::write(&tmp, serde_json::to_string_pretty(&v).unwrap() + "\n").expect("write evidence");
    std::fs::rename(&tmp, &dst).expect("rename evidence");
}

/// Generic delta-debugging helper: tries to remove chunks of `items` while `still_fails` holds.
pub fn ddmin<T: Clone>(items: Vec<T>, mut still_fails: impl FnMut(&[T]) -> bool) -> Vec<T> {
    let mut cur = items;
    let mut n = 2usize;
    while cur.len() >= 2 {
        let chunk = (cur.len() + n - 1) / n;
        let mut reduced = false;
        let mut start = 0;
        while start < cur.len() {
            let end = (start + chunk).min(cur.len());
            let mut cand = Vec::with_capacity(cur.len() - (end - start));
            cand.extend_from_slice(&cur[..start]);
            cand.extend_from_slice(&cur[end..]);
            if !cand.is_empty() && still_fails(&cand) {
                cur = cand;
                n = n.saturating_sub(1).max(2);
                reduced = true;
                break;
            }
            start = end;
        }
        if !reduced {
            if n >= cur.len() {
                break;
            }
            n = (n * 2).min(cur.len());
        }
    }
    cur
}

#[cfg(test)]
mod tests {
    use super::*;
    #[test]
    fn rng_is_stable() {
        let mut r = Rng::new(1);
        let a: Vec<u64> = (0..3).map(|_| r.next_u64()).collect();
        let mut r2 = Rng::new(1);
        let b: Vec<u64> = (0..3).map(|_| r2.next_u64()).collect();
        assert_eq!(a, b);
        assert_ne!(subseed(1, "a", 0), subseed(1, "a", 1));
        assert_ne!(subseed(1, "a", 0), subseed(1, "b", 0));
    }
    #[test]
    fn ddmin_reduces() {
        let v: Vec<u32> = (0..20).collect();
        let r = ddmin(v, |xs| xs.contains(&3) && xs.contains(&17));
        assert_eq!(r, vec![3, 17]);
    }
}
