fn main(){}
