//! c20-sim — decides property C20 by deterministic simulation with fault injection.
//!
//! System under test: the real `graphql-client` binary built (guard off) from /repo's working tree.
//! Simulated: the GraphQL endpoint (scripted, byte-exact, on loopback), the pre-existing output
//! file, the flag/header workload. One sub-seed = one plan = one exactly repeatable run.
//!
//! Exit codes: 0 held, 1 violation (`VIOLATION property=C20 replay=<file>`), 2 harness error.

mod plan;
mod server;

use plan::{Fixture, Meaning, World};
use serde_json::{json, Value};
use std::collections::{BTreeMap, BTreeSet, HashMap};
use std::io::Read;
use std::path::{Path, PathBuf};
use std::process::{Command, Stdio};
use std::sync::atomic::{AtomicBool, AtomicUsize, Ordering};
use std::sync::Mutex;
use std::time::{Duration, Instant};

const PROP: &str = "C20";
const OLD_TEXT: &[u8] = b"precious previous contents\nof the output file\n";

struct Cfg {
    cli: PathBuf,
    repo: PathBuf,
    work: PathBuf,
    evidence: PathBuf,
    replays: PathBuf,
    findings: PathBuf,
    jobs: usize,
}

fn load_world(repo: &Path, work: &Path) -> World {
    let mut fixtures = vec![];
    let fxdir = work.join("fx");
    let _ = std::fs::remove_dir_all(&fxdir);
    std::fs::create_dir_all(&fxdir).unwrap();
    let mut add_dir = |src: PathBuf, name: String, by_prefix: bool| {
        let Ok(rd) = std::fs::read_dir(&src) else { return };
        let mut files: Vec<PathBuf> = rd.filter_map(|e| e.ok()).map(|e| e.path()).filter(|p| p.is_file() && p.extension().map(|e| e == "graphql").unwrap_or(false)).collect();
        files.sort();
        let schemas: Vec<&PathBuf> = files.iter().filter(|p| p.file_name().unwrap().to_string_lossy().to_lowercase().contains("schema")).collect();
        let queries: Vec<&PathBuf> = files.iter().filter(|p| !p.file_name().unwrap().to_string_lossy().to_lowercase().contains("schema")).collect();
        for s in &schemas {
            for q in &queries {
                let sn = s.file_name().unwrap().to_string_lossy().to_string();
                let qn = q.file_name().unwrap().to_string_lossy().to_string();
                if by_prefix && sn.split('_').next() != qn.split('_').next() {
                    continue;
                }
                let fname = format!("{}__{}", name, qn.trim_end_matches(".graphql"));
                let d = fxdir.join(&fname);
                std::fs::create_dir_all(&d).unwrap();
                std::fs::copy(s, d.join("served.graphql")).unwrap();
                std::fs::copy(q, d.join("q.graphql")).unwrap();
                let big = std::fs::metadata(s).map(|m| m.len() > 50_000).unwrap_or(false);
                fixtures.push(Fixture { name: fname, sdl_path: d.join("served.graphql").display().to_string(), query_path: d.join("q.graphql").display().to_string(), big });
            }
        }
    };
    let tests = repo.join("graphql_client/tests");
    if let Ok(rd) = std::fs::read_dir(&tests) {
        let mut subs: Vec<PathBuf> = rd.filter_map(|e| e.ok()).map(|e| e.path()).filter(|p| p.is_dir()).collect();
        subs.sort();
        for s in subs {
            let n = s.file_name().unwrap().to_string_lossy().to_string();
            add_dir(s, n, false);
        }
    }
    add_dir(repo.join("graphql_client_codegen/src/tests"), "codegen".into(), true);
    add_dir(repo.join("examples/hasura/examples"), "hasura".into(), false);
    add_dir(repo.join("examples/github/examples"), "github".into(), false);
    // synthetic fixtures for features the repository's fixtures only have in an arguable form:
    // deprecations with explicit reasons (fields and enum values), custom scalars, lists of lists
    let syn: [(&str, &str, &str); 4] = [
        (
            // type extensions, custom root names incl. subscription, several interfaces per object,
            // descriptions (single-line and block), a deprecated field added by an extension
            "syn_ext__q",
            "schema { query: RootQ subscription: Sub }\n\"A described scalar with a \\\"quote\\\" and caf\u{e9}\"\nscalar Money\ntype RootQ {\n  \"\"\"\n  block description\n  over two lines\n  \"\"\"\n  me: Person\n}\nextend type RootQ { extra(n: Int = 2): [Money!] }\ninterface Named { name: String }\ninterface Aged { age: Int }\ntype Person implements Named & Aged { name: String, age: Int, pet: Pet }\ntype Pet implements Named { name: String }\nextend type Person { nick: String @deprecated(reason: \"use name\") }\nextend type Pet implements Aged { age: Int }\nextend type RootQ { oldest: Aged }\ntype Sub { tick: Int }\n",
            "query Ext { me { name age nick pet { name } } extra(n: 3) oldest { __typename age ... on Pet { name } ... on Person { nick } } }\n",
        ),
        (
            "syn_deprecated__q",
            "schema { query: Query }\ntype Query { currentUser: User, role: Role }\ntype User { id: ID!, name: String, oldName: String @deprecated(reason: \"Use name\"), legacy: Int @deprecated(reason: \"gone \\\"for good\\\"\"), vintage: Int @deprecated, ancient: Int @deprecated(reason: \"No longer supported\") }\nenum Role { ADMIN OLD @deprecated(reason: \"x\") USER }\n",
            "query Dep { currentUser { id name oldName legacy vintage ancient } role }\n",
        ),
        (
            // documentation and directives: block-string descriptions, a directive definition,
            // an interface implementing an interface, @specifiedBy, enum-valued and list-valued
            // defaults, described enum values and arguments
            "syn_docs__q",
            "schema { query: Query }\n\"\"\"\nBlock description with \"quotes\" and unicode café\n  indented line\n\"\"\"\ndirective @auth(role: String = \"user\") repeatable on FIELD_DEFINITION | OBJECT\n\"An entity\"\ninterface Entity { id: ID! }\ninterface Node implements Entity { id: ID!, label: String }\n\"A scalar with a URL\"\nscalar Stamp @specifiedBy(url: \"https://example.com/stamp\")\nenum Level {\n  \"lowest\"\n  LOW\n  \"\"\"\n  highest\n  level\n  \"\"\"\n  HIGH\n}\ninput Opts { level: Level = HIGH, levels: [Level!] = [LOW, HIGH], nested: Opts, when: Stamp }\ntype Item implements Node & Entity @auth(role: \"admin\") {\n  id: ID!\n  label: String\n  \"when it was made\"\n  made(tz: String = \"UTC\", opts: Opts = {level: LOW}): Stamp @auth\n  level: Level\n}\ntype Query { node(id: ID!): Node, item: Item, entities: [Entity!]! }\n",
            "query Docs($o: Opts) { node(id: \"1\") { __typename id label ... on Item { made(opts: $o) level } } item { id made } entities { __typename id } }\n",
        ),
        (
            "syn_shapes__q",
            "schema { query: Query mutation: Mut }\nscalar Stamp\ntype Query { grid: [[Int!]!]!, cube: [[[Int!]!]!]!, maybe: [[Stamp]], thing(id: ID! = \"1\", f: Filter = {n: 1}): Thing }\ntype Mut { touch(at: Stamp!): Stamp }\ninterface Thing { id: ID!, legacyId: Int @deprecated(reason: \"use id\") }\ntype A implements Thing { id: ID!, legacyId: Int, a: [A!] }\ntype B implements Thing { id: ID!, legacyId: Int, b: Float, flags: [Boolean]!, m: Mode }\nunion AB = A | B\nenum Mode { FAST SLOW @deprecated(reason: \"too slow\") }\ninput Filter { n: Int = 3, lim: Int! = 10, mode: Mode = FAST, on: Boolean! = true, ratio: Float, tags: [String!] = [\"x\"], strict: [Int!]! = [1], inner: Filter }\n",
            "query Shapes($f: Filter) { grid cube maybe thing(id: \"2\", f: $f) { __typename id legacyId ... on A { a { id } } ... on B { b flags m } } }\n",
        ),
    ];
    // further operations against the same synthetic schemas: mutation and subscription roots
    // with custom names
    let shapes_sdl = syn.iter().find(|(n, _, _)| *n == "syn_shapes__q").map(|(_, s, _)| *s).unwrap_or("");
    let ext_sdl = syn.iter().find(|(n, _, _)| *n == "syn_ext__q").map(|(_, s, _)| *s).unwrap_or("");
    // root types by default names, without a `schema { }` block: all three, and query only
    let noschema_sdl = "type Query { hello(name: String = \"you\"): String, count: Int! }\ntype Mutation { bump(by: Int! = 1): Int! }\ntype Subscription { ticks: Int }\n";
    let queryonly_sdl = "enum Level { LOW MID HIGH }\ntype Query { level: Level!, levels: [Level!] }\n";
    let more: Vec<(&str, &str, &str)> = vec![
        ("syn_noschema__q", noschema_sdl, "query Hello($n: String) { hello(name: $n) count }\n"),
        ("syn_noschema__m", noschema_sdl, "mutation Bump($by: Int!) { bump(by: $by) }\n"),
        ("syn_noschema__s", noschema_sdl, "subscription T { ticks }\n"),
        ("syn_queryonly__q", queryonly_sdl, "query L { level levels }\n"),
        ("syn_shapes__m", shapes_sdl, "mutation Touch($at: Stamp!, $f: Filter) { touch(at: $at) }\n"),
        ("syn_ext__s", ext_sdl, "subscription Ticks { tick }\n"),
    ];
    for (name, sdl, query) in syn.iter().cloned().chain(more) {
        let d = fxdir.join(name);
        std::fs::create_dir_all(&d).unwrap();
        std::fs::write(d.join("served.graphql"), sdl).unwrap();
        std::fs::write(d.join("q.graphql"), query).unwrap();
        fixtures.push(Fixture { name: name.to_string(), sdl_path: d.join("served.graphql").display().to_string(), query_path: d.join("q.graphql").display().to_string(), big: false });
    }
    let mut docs = vec![];
    let gdir = repo.join("graphql_client_cli/src/graphql");
    if let Ok(rd) = std::fs::read_dir(&gdir) {
        let mut files: Vec<PathBuf> = rd.filter_map(|e| e.ok()).map(|e| e.path()).filter(|p| p.file_name().unwrap().to_string_lossy().starts_with("introspection_query")).collect();
        files.sort();
        for f in files {
            let text = std::fs::read_to_string(&f).unwrap_or_default();
            let op = text
                .lines()
                .find_map(|l| l.trim().strip_prefix("query ").map(|r| r.trim_end_matches('{').trim().to_string()))
                .unwrap_or_default();
            docs.push((f.file_name().unwrap().to_string_lossy().to_string(), text, op));
        }
    }
    if fixtures.is_empty() || docs.len() < 4 {
        eprintln!("harness error: fixtures ({}) or introspection documents ({}) not found under {}", fixtures.len(), docs.len(), repo.display());
        std::process::exit(2);
    }
    let mut json_files = vec![];
    for rel in ["graphql_client/tests/countries_schema.json", "graphql_client/tests/json_schema/schema_1.json", "graphql_client/tests/json_schema/schema_2.json", "graphql_client/tests/introspection/introspection_response.json", "graphql_client_codegen/src/schema/tests/extend_object_schema.json"] {
        let p = repo.join(rel);
        if let Ok(md) = std::fs::metadata(&p) {
            json_files.push((rel.rsplit('/').next().unwrap_or(rel).to_string(), p.display().to_string(), md.len() > 100_000));
        }
    }
    World { fixtures, docs, json_files }
}

fn selects(text: &str, field: &str) -> bool {
    text.lines().any(|l| l.trim() == field)
}

/// The document the statement says must be sent for these flags.
fn expected_doc<'a>(w: &'a World, one_of: bool, by_url: bool) -> Option<&'a (String, String, String)> {
    w.docs.iter().find(|(_, t, _)| selects(t, "isOneOf") == one_of && selects(t, "specifiedByURL") == by_url)
}

struct Served {
    bytes: Vec<u8>,
    arguable: Vec<String>,
    has_one_of: bool,
}

fn served_for(plan: &Value, spec: &Value, w: &World) -> Served {
    if spec["kind"] == "file" {
        let bytes = w.json_files.iter().find(|(n, _, _)| Some(n.as_str()) == spec["name"].as_str()).and_then(|(_, p, _)| std::fs::read(p).ok()).unwrap_or_else(|| b"null".to_vec());
        return Served { bytes, arguable: vec!["a JSON file served as is (no SDL to compare with)".into()], has_one_of: false };
    }
    let fx = w.fixtures.iter().find(|f| Some(f.name.as_str()) == spec["fixture"].as_str()).unwrap_or(&w.fixtures[0]);
    let sdl = std::fs::read_to_string(&fx.sdl_path).unwrap_or_default();
    let doc = expected_doc(w, plan["is_one_of"].as_bool().unwrap_or(false), plan["specify_by_url"].as_bool().unwrap_or(false)).map(|d| d.1.clone()).unwrap_or_default();
    match sdl2json::convert(&sdl, &doc) {
        Ok(c) => {
            let mut env = if spec["bare"].as_bool().unwrap_or(false) { json!({"__schema": c.schema}) } else { json!({"data": {"__schema": c.schema}}) };
            if spec["errors"].as_bool().unwrap_or(false) {
                env["errors"] = json!([{"message": "partial failure", "path": ["__schema", "directives"]}]);
            }
            if spec["extensions"].as_bool().unwrap_or(false) {
                env["extensions"] = json!({"tracing": {"version": 1, "duration": 12345}});
            }
            let bytes = if spec["pretty"].as_bool().unwrap_or(false) { serde_json::to_vec_pretty(&env).unwrap() } else { serde_json::to_vec(&env).unwrap() };
            Served { bytes, arguable: c.arguable, has_one_of: c.has_one_of }
        }
        Err(e) => Served { bytes: b"null".to_vec(), arguable: vec![format!("SDL does not parse: {}", e)], has_one_of: false },
    }
}

#[derive(Clone, Debug)]
struct Violation {
    class: String,
    detail: String,
}

struct Outcome {
    violations: Vec<Violation>,
    obs: Value,
    class: String,
    bucket: String,
    meaning_success: bool,
    refused: bool,
    contacted: bool,
    codegen_checked: bool,
    fingerprint: String,
}

/// File names and arguments are handled as text in plans and replay files; the marker `@E9@`
/// stands for the single byte 0xE9 (a Latin-1 e-acute: a name that is not valid UTF-8) and is
/// replaced where the text crosses into the operating system.
fn os(s: &str) -> std::ffi::OsString {
    use std::os::unix::ffi::OsStringExt;
    let mut out = vec![];
    let b = s.as_bytes();
    let mut i = 0;
    while i < b.len() {
        if b[i..].starts_with(b"@E9@") {
            out.push(0xE9);
            i += 4;
        } else {
            out.push(b[i]);
            i += 1;
        }
    }
    std::ffi::OsString::from_vec(out)
}

fn run_cli(cfg: &Cfg, args: &[String], dir: &Path, timeout_s: u64) -> (Option<i32>, Vec<u8>, String, bool) {
    run_cli_env(cfg, args, dir, timeout_s, &[], false, None)
}

fn run_cli_env(cfg: &Cfg, args: &[String], dir: &Path, timeout_s: u64, env: &[(&str, &str)], stdout_full: bool, fsize_limit: Option<u64>) -> (Option<i32>, Vec<u8>, String, bool) {
    let stdout_cfg = if stdout_full {
        std::fs::OpenOptions::new().write(true).open("/dev/full").map(Stdio::from).unwrap_or_else(|_| Stdio::piped())
    } else {
        Stdio::piped()
    };
    let mut cmd = Command::new(&cfg.cli);
    if let Some(limit) = fsize_limit {
        use std::os::unix::process::CommandExt;
        // only async-signal-safe calls between fork and exec
        unsafe {
            cmd.pre_exec(move || {
                let lim = libc::rlimit { rlim_cur: limit as libc::rlim_t, rlim_max: limit as libc::rlim_t };
                if libc::setrlimit(libc::RLIMIT_FSIZE, &lim) != 0 {
                    return Err(std::io::Error::last_os_error());
                }
                libc::signal(libc::SIGXFSZ, libc::SIG_IGN);
                Ok(())
            });
        }
    }
    let mut child = cmd
        .args(args.iter().map(|a| os(a)))
        .current_dir(dir)
        .env_clear()
        .env("PATH", "/usr/bin:/bin")
        .env("HOME", dir)
        .env("NO_PROXY", "*")
        .envs(env.iter().cloned())
        .stdin(Stdio::null())
        .stdout(stdout_cfg)
        .stderr(Stdio::piped())
        .spawn()
        .unwrap_or_else(|e| {
            eprintln!("harness error: cannot start {}: {}", cfg.cli.display(), e);
            std::process::exit(2)
        });
    let so = child.stdout.take();
    let mut se = child.stderr.take().unwrap();
    let t1 = std::thread::spawn(move || {
        let mut v = vec![];
        if let Some(mut so) = so {
            let _ = so.read_to_end(&mut v);
        }
        v
    });
    let t2 = std::thread::spawn(move || {
        let mut v = vec![];
        let _ = se.read_to_end(&mut v);
        String::from_utf8_lossy(&v).to_string()
    });
    let start = Instant::now();
    let mut timed_out = false;
    let status = loop {
        match child.try_wait() {
            Ok(Some(s)) => break Some(s),
            Ok(None) => {
                if start.elapsed() > Duration::from_secs(timeout_s) {
                    let _ = child.kill();
                    let _ = child.wait();
                    timed_out = true;
                    break None;
                }
                std::thread::sleep(Duration::from_micros(500));
            }
            Err(_) => break None,
        }
    };
    let out = t1.join().unwrap_or_default();
    let err = t2.join().unwrap_or_default();
    (status.and_then(|s| s.code()), out, err, timed_out)
}

/// Executes one plan against the real binary and evaluates the oracle.
fn execute(plan: &Value, w: &World, cfg: &Cfg, slot: usize) -> Outcome {
    let dir = cfg.work.join(format!("slot{}", slot));
    let _ = std::fs::remove_dir_all(&dir);
    std::fs::create_dir_all(&dir).unwrap();
    let served_cache: Mutex<Option<Served>> = Mutex::new(None);
    let served_json = |spec: &Value| -> Vec<u8> {
        let s = served_for(plan, spec, w);
        let b = s.bytes.clone();
        *served_cache.lock().unwrap() = Some(s);
        b
    };
    let built = plan::build(&plan["script"], &served_json);
    let headers: Vec<String> = plan["headers"].as_array().map(|a| a.iter().filter_map(|h| h.as_str().map(|s| s.to_string())).collect()).unwrap_or_default();
    let refused = headers.iter().any(|h| plan::header_refused(h));
    // pre-existing output
    std::fs::create_dir_all(dir.join("sub")).unwrap();
    // (only if /dev/full really is the character device: a change under test that replaces files
    // by rename could have clobbered it in an earlier run)
    let dev_full_ok = {
        use std::os::unix::fs::FileTypeExt;
        std::fs::metadata("/dev/full").map(|m| m.file_type().is_char_device()).unwrap_or(false)
    };
    let sink_full = plan["sink"] == "dev-full" && dev_full_ok;
    // (LONGNAME: a file name of 250 bytes, five short of the limit of common file systems)
    let long_name = format!("{}.json", "n".repeat(245));
    let oname = match plan["output_name"].as_str().unwrap_or("out.json") {
        "LONGNAME" => long_name.as_str(),
        x => x,
    };
    // character devices and pipes as --output: /dev/null (nothing to read back; a good reply must
    // still end in exit status 0) and /dev/stdout (the JSON then arrives on the captured stdout)
    let sink_null = plan["sink"] == "dev-null" && !plan["output"].is_null();
    let sink_stdout = plan["sink"] == "dev-stdout" && !plan["output"].is_null();
    let (out_path, out_arg) = match plan["output_form"].as_str() {
        _ if sink_full => (PathBuf::from("/dev/full"), "/dev/full".to_string()),
        _ if sink_null => (PathBuf::from("/dev/null"), "/dev/null".to_string()),
        _ if sink_stdout => (PathBuf::from("/dev/stdout"), "/dev/stdout".to_string()),
        Some("rel") => (dir.join(os(oname)), oname.to_string()),
        Some("rel-sub") => (dir.join("sub").join(os(oname)), format!("sub/../sub/{}", oname)),
        _ => (dir.join(os(oname)), dir.join(oname).display().to_string()),
    };
    let pre: Option<Vec<u8>> = match plan["output"].as_str() {
        Some("text") => Some(OLD_TEXT.to_vec()),
        Some("empty") => Some(vec![]),
        // longer than anything the endpoint serves: leftovers show if the file is not truncated
        Some("long-text") => Some(OLD_TEXT.repeat(7000)),
        // an old schema saved by a tool that writes UTF-16 / Latin-1: not valid UTF-8
        Some("not-utf8") => Some(vec![0xff, 0xfe, b'{', 0, b'"', 0, b'd', 0, b'a', 0, b't', 0, b'a', 0, b'"', 0, b':', 0, b'n', 0, b'u', 0, b'l', 0, b'l', 0, b'}', 0, 0xe9, 0x0a]),
        // what will be served, except for a member outside `data` (a file from an earlier run
        // against the same server): the new reply must still replace it
        Some("stale-same-data") => {
            let now: Option<Value> = match &built.meaning {
                Meaning::Complete { body, .. } => serde_json::from_slice(body).ok(),
                _ => None,
            };
            Some(match now {
                Some(Value::Object(mut m)) => {
                    m.insert("extensions".into(), json!({"stale": true, "requestId": "from-an-earlier-run"}));
                    serde_json::to_vec_pretty(&Value::Object(m)).unwrap()
                }
                _ => b"{\n  \"stale\": true\n}".to_vec(),
            })
        }
        Some("old-schema") => Some(b"{\n  \"data\": {\n    \"__schema\": {\n      \"queryType\": { \"name\": \"OldQuery\" },\n      \"types\": []\n    }\n  }\n}\n".to_vec()),
        _ => None,
    };
    // `is-dir`: --output names an existing directory. Nothing can be written there: a run that
    // reports success is judged as a success (and fails the "JSON at --output" check), a run that
    // reports failure is accepted.
    let sink_dir = plan["sink"] == "is-dir" && !plan["output"].is_null() && !sink_full;
    if sink_dir {
        std::fs::create_dir_all(&out_path).unwrap();
    }
    // `fsize`: the output file cannot grow beyond a few bytes / kilobytes. A run that reports
    // success must have the complete JSON at --output (possible only if it fits); a run that
    // reports failure is accepted, and what it left in the file is not judged (the reply was good:
    // the "untouched on failure" clause is about server-side failures).
    let sink_fsize = plan["sink"] == "fsize" && !plan["output"].is_null() && !sink_full && !sink_dir;
    let pre = if sink_full || sink_dir || sink_null || sink_stdout { None } else { pre };
    // `symlink`: the --output path is a symbolic link to a file holding old text; whatever the
    // tool does, reading through the path afterwards must give the JSON (success) or the old text
    let via_symlink = plan["output"] == "symlink" && !sink_full && !sink_dir && !sink_null && !sink_stdout;
    let pre = if via_symlink { Some(OLD_TEXT.to_vec()) } else { pre };
    if let Some(p) = &pre {
        if via_symlink {
            let target = out_path.parent().unwrap_or(&dir).join("real-target.dat");
            std::fs::write(&target, p).unwrap();
            let _ = std::fs::remove_file(&out_path);
            std::os::unix::fs::symlink("real-target.dat", &out_path).unwrap();
        } else {
            std::fs::write(&out_path, p).unwrap();
        }
    }
    let endpoint = server::Endpoint::start(built.behaviour.clone());
    let https = plan["script"]["https"].as_bool().unwrap_or(false);
    let url = format!("{}://127.0.0.1:{}{}", if https { "https" } else { "http" }, endpoint.port, plan["path"].as_str().unwrap_or("/graphql"));
    // Argument groups; their order (headers keep their relative order, which is observable) and
    // the `--opt value` / `--opt=value` spelling are part of the plan (`arg_order`, `arg_forms`).
    let forms = plan["arg_forms"].as_u64().unwrap_or(0);
    let opt = |name: &str, value: &str, bit: u64| -> Vec<String> {
        if forms & bit != 0 && !value.starts_with('-') {
            vec![name.to_string(), value.to_string()]
        } else {
            vec![format!("{}={}", name, value)]
        }
    };
    let mut groups: Vec<Vec<String>> = vec![vec![url.clone()]];
    if plan["is_one_of"].as_bool().unwrap_or(false) {
        groups.push(vec!["--is-one-of".into()]);
    }
    if plan["specify_by_url"].as_bool().unwrap_or(false) {
        groups.push(vec!["--specify-by-url".into()]);
    }
    if plan["no_ssl"].as_bool().unwrap_or(false) {
        groups.push(vec!["--no-ssl".into()]);
    }
    if !plan["output"].is_null() {
        groups.push(opt("--output", &out_arg, 1));
    }
    if let Some(t) = plan["authorization"].as_str() {
        groups.push(opt("--authorization", t, 2));
    }
    let header_group: Vec<usize> = (0..headers.len()).map(|_| usize::MAX).collect();
    let first_header_slot = groups.len();
    for (i, h) in headers.iter().enumerate() {
        let eq = plan["header_eq"].as_bool().unwrap_or(true) || h.starts_with('-') || (forms >> (3 + (i % 8))) & 1 == 0;
        groups.push(if eq { vec![format!("--header={}", h)] } else { vec!["--header".into(), h.clone()] });
    }
    let _ = header_group;
    // deterministic shuffle of the group positions from `arg_order`; header groups are then put
    // back into their original relative order
    let order_seed = plan["arg_order"].as_u64().unwrap_or(0);
    let mut idx: Vec<usize> = (0..groups.len()).collect();
    if order_seed != 0 {
        let mut r = simcore::Rng::new(order_seed);
        r.shuffle(&mut idx);
        let header_positions: Vec<usize> = idx.iter().enumerate().filter(|(_, g)| **g >= first_header_slot).map(|(p, _)| p).collect();
        let mut hs: Vec<usize> = header_positions.iter().map(|p| idx[*p]).collect();
        hs.sort();
        for (p, g) in header_positions.iter().zip(hs) {
            idx[*p] = g;
        }
    } else if !plan["url_first"].as_bool().unwrap_or(true) {
        idx.rotate_left(1);
    }
    let mut args: Vec<String> = vec!["introspect-schema".into()];
    for g in idx {
        args.extend(groups[g].iter().cloned());
    }
    let env: Vec<(&str, &str)> = match plan["env"].as_str() {
        Some("rust-log-trace") => vec![("RUST_LOG", "trace")],
        Some("rust-log-cli-info") => vec![("RUST_LOG", "graphql_client_cli=info,warn")],
        // variables named after the tool and its flags (as an `env` fallback of the argument
        // parser would name them): the shipped tool reads none of them
        Some("flag-like-vars") => vec![("AUTHORIZATION", "env-token-A"), ("GRAPHQL_CLIENT_AUTHORIZATION", "env-token-B"), ("GRAPHQL_AUTHORIZATION", "env-token-C"), ("HEADER", "X-Env: 1"), ("GRAPHQL_CLIENT_HEADER", "X-Env: 2"), ("OUTPUT", "env-output.json"), ("GRAPHQL_CLIENT_OUTPUT", "env-output2.json"), ("SCHEMA_LOCATION", "http://127.0.0.1:9/env"), ("NO_SSL", "true"), ("IS_ONE_OF", "true"), ("SPECIFY_BY_URL", "true"), ("GRAPHQL_CLIENT_IS_ONE_OF", "true"), ("GRAPHQL_CLIENT_SPECIFY_BY_URL", "true"), ("BEARER_TOKEN", "env-token-D"), ("TOKEN", "env-token-E")],
        Some("locale-tz") => vec![("LANG", "tr_TR.UTF-8"), ("LC_ALL", "tr_TR.UTF-8"), ("TZ", "Pacific/Kiritimati"), ("TERM", "xterm-256color"), ("COLUMNS", "20")],
        _ => vec![],
    };
    let (code, stdout, stderr, timed_out) = run_cli_env(cfg, &args, &dir, 90, &env, sink_full && plan["output"].is_null(), if sink_fsize { plan["fsize_limit"].as_u64() } else { None });
    let seen = endpoint.finish();
    // (/dev/full reads as an endless stream of zeros: never read it back)
    let after: Option<Vec<u8>> = if sink_full || sink_null { None } else if sink_stdout { Some(stdout.clone()) } else { std::fs::read(&out_path).ok() };

    // files next to the output that were not there before
    let strays: Vec<String> = if sink_full || sink_null || sink_stdout { vec![] } else {
        let parent = out_path.parent().unwrap_or(&dir).to_path_buf();
        std::fs::read_dir(&parent).map(|rd| rd.filter_map(|e| e.ok()).filter(|e| e.file_name() != os(oname)).map(|e| e.file_name().to_string_lossy().to_string()).filter(|n| n != "sub" && n != "real-target.dat" && !n.starts_with("written") && n != "A" && n != "B").collect()).unwrap_or_default()
    };
    let mut v: Vec<Violation> = vec![];
    let mut push = |class: &str, detail: String| v.push(Violation { class: class.to_string(), detail });
    let exit_ok = code == Some(0);
    if !strays.is_empty() && !plan["output"].is_null() && !(sink_fsize && !exit_ok) {
        push("output-written-elsewhere", format!("files appeared next to the --output path {:?}: {:?}", oname, strays));
    }
    if timed_out {
        push("hang", "the binary did not exit within 90 s although the endpoint never stalls".into());
    }
    let full_requests: Vec<&server::Request> = seen.requests.iter().filter(|r| r.complete).collect();

    if refused {
        if exit_ok {
            push("refused-header-accepted", format!("exit status 0 with a header text of the refused class: {:?}", headers));
        }
        if seen.connections > 0 {
            push("refused-header-contacted-endpoint", format!("{} connection(s) although a header must be refused", seen.connections));
        }
        if pre.is_some() && after != pre {
            push("output-file-modified-on-failure", "a refused header changed the existing output file".into());
        }
    } else {
        // ---- the request, whenever the endpoint read one completely
        let doc = expected_doc(w, plan["is_one_of"].as_bool().unwrap_or(false), plan["specify_by_url"].as_bool().unwrap_or(false));
        for r in &full_requests {
            if r.method != "POST" {
                push("request-wrong:method", format!("method {}", r.method));
            }
            let want = plan::expected_target(plan["path"].as_str().unwrap_or("/graphql"));
            if r.target != want {
                push("request-wrong:target", format!("target {} instead of {} (URL path part {})", r.target, want, plan["path"]));
            }
            match serde_json::from_slice::<Value>(&r.body) {
                Ok(Value::Object(m)) => {
                    let keys: BTreeSet<&str> = m.keys().map(|k| k.as_str()).collect();
                    let want: BTreeSet<&str> = ["variables", "query", "operationName"].into_iter().collect();
                    if keys != want {
                        push("request-wrong:body-members", format!("body members {:?}", keys));
                    }
                    let q = m.get("query").and_then(|q| q.as_str()).unwrap_or("");
                    if !w.docs.iter().any(|(_, t, _)| t == q) {
                        push("request-wrong:query-not-a-shipped-document", format!("query text ({} bytes) is none of the introspection documents in the repository", q.len()));
                    }
                    if selects(q, "isOneOf") != plan["is_one_of"].as_bool().unwrap_or(false) || selects(q, "specifiedByURL") != plan["specify_by_url"].as_bool().unwrap_or(false) {
                        push("request-wrong:document-for-flags", format!("flags one_of={} by_url={} but the query selects isOneOf={} specifiedByURL={}", plan["is_one_of"], plan["specify_by_url"], selects(q, "isOneOf"), selects(q, "specifiedByURL")));
                    }
                    let op_in_text = q.lines().find_map(|l| l.trim().strip_prefix("query ").map(|r| r.trim_end_matches('{').trim().to_string())).unwrap_or_default();
                    let opn = m.get("operationName").and_then(|o| o.as_str()).unwrap_or("");
                    if opn != op_in_text || doc.map(|d| d.2.as_str() != opn).unwrap_or(false) {
                        push("request-wrong:operation-name", format!("operationName {:?}, document declares {:?}", opn, op_in_text));
                    }
                }
                _ => push("request-wrong:body-not-a-json-object", format!("{} body bytes", r.body.len())),
            }
            // "POSTs one JSON body": on the wire a JSON body is identified by its media type.
            // (Not demanded when the user passes a Content-Type of their own.)
            let user_ct = headers.iter().any(|h| plan::header_expected(h).0.eq_ignore_ascii_case("content-type"));
            if !user_ct {
                let cts: Vec<String> = r.headers.iter().filter(|(n, _)| n.eq_ignore_ascii_case("content-type")).map(|(_, v)| String::from_utf8_lossy(v).to_ascii_lowercase()).collect();
                let ok = cts.len() == 1 && cts[0].split(';').next().map(|m| m.trim() == "application/json").unwrap_or(false);
                if !ok {
                    push("request-wrong:content-type", format!("request Content-Type header(s): {:?}", cts));
                }
            }
            // headers with multiplicity
            let mut want: BTreeMap<(String, Vec<u8>), usize> = BTreeMap::new();
            for h in &headers {
                let (n, val) = plan::header_expected(h);
                *want.entry((n.to_ascii_lowercase(), val.into_bytes())).or_default() += 1;
            }
            if let Some(t) = plan["authorization"].as_str() {
                *want.entry(("authorization".into(), format!("Bearer {}", t).into_bytes())).or_default() += 1;
            }
            for ((n, val), k) in &want {
                let got = r.headers.iter().filter(|(hn, hv)| hn.to_ascii_lowercase() == *n && hv == val).count();
                if got < *k {
                    let class = if n == "authorization" && plan["authorization"].is_string() && val.starts_with(b"Bearer ") { "request-wrong:bearer-authorization" } else { "request-wrong:header-not-carried" };
                    push(class, format!("header {}: {:?} expected {} time(s), received {}; received headers: {:?}", n, String::from_utf8_lossy(val), k, got, r.headers.iter().map(|(a, b)| format!("{}: {}", a, String::from_utf8_lossy(b))).collect::<Vec<_>>()));
                }
            }
            // Field lines with the same name combine, in order, into one field value (RFC 9110
            // 5.3): the values given for one name must arrive in the order they were given in
            // (checked per name, as a subsequence; the bearer value's place is not prescribed).
            let mut by_name: BTreeMap<String, Vec<Vec<u8>>> = BTreeMap::new();
            for h in &headers {
                let (n, val) = plan::header_expected(h);
                by_name.entry(n.to_ascii_lowercase()).or_default().push(val.into_bytes());
            }
            for (n, seq) in by_name.iter().filter(|(_, s)| s.len() > 1) {
                let got: Vec<&Vec<u8>> = r.headers.iter().filter(|(hn, _)| hn.to_ascii_lowercase() == *n).map(|(_, hv)| hv).collect();
                let mut it = got.iter();
                let in_order = seq.iter().all(|w| it.any(|g| *g == w));
                let all_there = seq.iter().all(|w| got.iter().any(|g| *g == w));
                if all_there && !in_order {
                    push("request-wrong:header-order", format!("the values given for {} arrive in another order: given {:?}, received {:?}", n, seq.iter().map(|v| String::from_utf8_lossy(v).to_string()).collect::<Vec<_>>(), got.iter().map(|v| String::from_utf8_lossy(v).to_string()).collect::<Vec<_>>()));
                }
            }
            if plan["authorization"].is_null() && r.headers.iter().any(|(hn, _)| hn.eq_ignore_ascii_case("authorization")) && !headers.iter().any(|h| plan::header_expected(h).0.eq_ignore_ascii_case("authorization")) {
                push("request-wrong:unexpected-authorization", "an Authorization header was sent without --authorization".into());
            }
        }
        // replies a client may accept or reject: judged as a success when the tool reports one,
        // as a failure when it reports one
        let success_expected = plan::success_expected(&built.meaning) && !sink_full && (exit_ok || !(built.either_ok || sink_dir || sink_fsize));
        if sink_full && plan::success_expected(&built.meaning) && exit_ok {
            push("write-failure-not-reported", "the output target accepts no bytes (/dev/full) but the exit status is 0: the JSON cannot have been written".into());
        }
        let fault_free = matches!(&built.meaning, Meaning::Complete { .. });
        if fault_free && (seen.connections != 1 || full_requests.len() != 1) && !timed_out {
            push("not-exactly-one-request", format!("{} connection(s), {} complete request(s) in a run without transport faults", seen.connections, full_requests.len()));
        }
        if success_expected {
            let Meaning::Complete { body, .. } = &built.meaning else { unreachable!() };
            let served_value: Value = serde_json::from_slice(body).unwrap();
            if !exit_ok {
                push("success-expected-but-failed", format!("2xx reply with a JSON body, exit status {:?}, stderr: {}", code, stderr.chars().take(300).collect::<String>()));
            } else if sink_null {
                // nothing to read back from /dev/null: the exit status is all there is
            } else {
                let written: Option<Vec<u8>> = if plan["output"].is_null() { Some(stdout.clone()) } else { after.clone() };
                match written.as_deref().map(serde_json::from_slice::<Value>) {
                    Some(Ok(val)) => {
                        if val != served_value {
                            push("output-differs-from-served-json", format!("written JSON ({} bytes) is not the served JSON ({} bytes)", written.as_ref().map(|w| w.len()).unwrap_or(0), body.len()));
                        }
                    }
                    Some(Err(e)) => push("output-not-json", format!("output does not parse as one JSON value: {}", e)),
                    None => push("output-missing", "exit status 0 but no output file".into()),
                }
            }
        } else {
            if exit_ok && !(sink_full && plan::success_expected(&built.meaning)) {
                push("failure-expected-but-succeeded", format!("reply means {:?} but exit status is 0", short_meaning(&built.meaning)));
            }
            if let (Some(p), false) = (&pre, sink_fsize && plan::success_expected(&built.meaning)) {
                if after.as_ref() != Some(p) {
                    push("output-file-modified-on-failure", format!("existing output file had {} bytes, has {} after a failed run ({})", p.len(), after.as_ref().map(|a| a.len() as i64).unwrap_or(-1), short_meaning(&built.meaning)));
                }
            }
        }
    }
    // ---- last clause: the written file generates the same code as the served SDL
    let mut codegen_checked = false;
    let served = served_cache.lock().unwrap().take();
    if v.is_empty() && !refused && !sink_full && !sink_null && !sink_stdout && exit_ok && plan::success_expected(&built.meaning) && plan["script"]["body"]["kind"] == "schema" {
        if let Some(s) = served {
            let one_of_ok = !s.has_one_of || plan["is_one_of"].as_bool().unwrap_or(false);
            if s.arguable.is_empty() && one_of_ok {
                let fx = w.fixtures.iter().find(|f| Some(f.name.as_str()) == plan["script"]["body"]["fixture"].as_str()).unwrap();
                let written = dir.join("written.json");
                if plan["output"].is_null() {
                    std::fs::write(&written, &stdout).unwrap();
                } else {
                    std::fs::copy(&out_path, &written).unwrap();
                }
                let (a, b) = (dir.join("A"), dir.join("B"));
                std::fs::create_dir_all(&a).unwrap();
                std::fs::create_dir_all(&b).unwrap();
                let ga = run_cli(cfg, &["generate".into(), "--no-formatting".into(), "-s".into(), written.display().to_string(), fx.query_path.clone(), "-o".into(), a.display().to_string()], &dir, 120);
                let gb = run_cli(cfg, &["generate".into(), "--no-formatting".into(), "-s".into(), fx.sdl_path.clone(), fx.query_path.clone(), "-o".into(), b.display().to_string()], &dir, 120);
                codegen_checked = true;
                let fa = std::fs::read(a.join("q.rs")).ok();
                let fb = std::fs::read(b.join("q.rs")).ok();
                if (ga.0 == Some(0)) != (gb.0 == Some(0)) {
                    v.push(Violation { class: "codegen-differs-json-vs-sdl".into(), detail: format!("generate from the written file exits {:?}, from the SDL {:?}; stderr: {} / {}", ga.0, gb.0, ga.2.chars().take(200).collect::<String>(), gb.2.chars().take(200).collect::<String>()) });
                } else if fa != fb {
                    let (x, y) = (fa.unwrap_or_default(), fb.unwrap_or_default());
                    let at = x.iter().zip(y.iter()).position(|(p, q)| p != q).unwrap_or(x.len().min(y.len()));
                    let ctx = |z: &[u8]| String::from_utf8_lossy(&z[at.saturating_sub(60)..(at + 80).min(z.len())]).to_string();
                    let class = if s.has_one_of { "codegen-differs-json-vs-sdl:one-of-input" } else { "codegen-differs-json-vs-sdl" };
                    v.push(Violation { class: class.into(), detail: format!("generated code differs at byte {}: from written file …{}… / from SDL …{}…", at, ctx(&x), ctx(&y)) });
                }
            }
        }
    }
    let obs = json!({
        "exit": code,
        "timed_out": timed_out,
        "stdout_fp": simcore::fingerprint(&stdout),
        "stdout_len": stdout.len(),
        "stderr_head": stderr.replace(&format!(":{}", endpoint_port_str(&url)), ":PORT").chars().take(160).collect::<String>(),
        "connections": seen.connections,
        "complete_requests": full_requests.len(),
        "request_fp": full_requests.first().map(|r| simcore::fingerprint(&normalise_request(&r.raw))),
        "output_after": after.as_ref().map(|a| json!({"len": a.len(), "fp": simcore::fingerprint(a)})),
        "meaning": short_meaning(&built.meaning),
        "codegen_equivalence_checked": codegen_checked,
    });
    let fingerprint = simcore::fingerprint(json!([obs["exit"], obs["stdout_fp"], obs["connections"], obs["complete_requests"], obs["request_fp"], obs["output_after"], v.iter().map(|x| x.class.clone()).collect::<Vec<_>>()]).to_string().as_bytes());
    Outcome {
        violations: v,
        obs,
        class: built.class,
        bucket: built.cut_bucket,
        meaning_success: plan::success_expected(&built.meaning) && !sink_full,
        refused,
        contacted: seen.connections > 0,
        codegen_checked,
        fingerprint,
    }
}

fn endpoint_port_str(url: &str) -> String {
    url.split(':').nth(2).map(|s| s.split('/').next().unwrap_or("").to_string()).unwrap_or_default()
}

/// The request with the (ephemeral) port of the Host header blanked.
fn normalise_request(raw: &[u8]) -> Vec<u8> {
    let s = String::from_utf8_lossy(raw).to_string();
    let mut out = String::new();
    for l in s.split_inclusive('\n') {
        if l.to_ascii_lowercase().starts_with("host:") {
            out.push_str("host: 127.0.0.1:PORT\r\n");
        } else {
            out.push_str(l);
        }
    }
    out.into_bytes()
}

fn short_meaning(m: &Meaning) -> String {
    match m {
        Meaning::Refused => "refused".into(),
        Meaning::Broken(s) => format!("broken: {}", s),
        Meaning::Complete { status, body } => format!("complete {} with {} body bytes ({})", status, body.len(), if serde_json::from_slice::<Value>(body).is_ok() { "one JSON value" } else { "not JSON" }),
    }
}

fn has_class(o: &Outcome, class: &str) -> bool {
    o.violations.iter().any(|v| v.class == class)
}

/// Shrinks a failing plan while the same violation class persists.
fn minimise(p: &Value, class: &str, w: &World, cfg: &Cfg, slot: usize, budget: usize) -> (Value, usize) {
    let mut best = p.clone();
    let mut attempts = 0;
    let try_plan = |cand: Value, best: &mut Value, attempts: &mut usize| {
        if *attempts >= budget || cand == *best {
            return;
        }
        *attempts += 1;
        if has_class(&execute(&cand, w, cfg, slot), class) {
            *best = cand;
        }
    };
    // headers one by one
    let mut i = 0;
    while i < best["headers"].as_array().map(|a| a.len()).unwrap_or(0) {
        let mut c = best.clone();
        c["headers"].as_array_mut().unwrap().remove(i);
        let before = best.clone();
        try_plan(c, &mut best, &mut attempts);
        if best == before {
            i += 1;
        }
    }
    for (k, val) in [("authorization", Value::Null), ("no_ssl", json!(false)), ("is_one_of", json!(false)), ("specify_by_url", json!(false)), ("url_first", json!(true)), ("header_eq", json!(true)), ("path", json!("/graphql")), ("env", json!("clean")), ("output_form", json!("abs")), ("sink", json!("normal")), ("output_name", json!("out.json")), ("arg_order", json!(0)), ("arg_forms", json!(0))] {
        let mut c = best.clone();
        c[k] = val;
        try_plan(c, &mut best, &mut attempts);
    }
    if best["output"].is_string() && best["output"] != "text" {
        let mut c = best.clone();
        c["output"] = json!("text");
        try_plan(c, &mut best, &mut attempts);
    }
    if best["script"]["kind"] == "reply" {
        for (k, val) in [("interim_100", json!(false)), ("http10", json!(false)), ("segments", json!(1)), ("extra_headers", json!([])), ("suffix", json!("")), ("content_type", json!("application/json")), ("framing", json!("cl")), ("rst", json!(false)), ("chunk_ext", json!(false)), ("trailers", json!(false)), ("odd_case", json!(false)), ("delay_ms", json!(0)), ("cl_delta", json!(0)), ("cut", Value::Null)] {
            let mut c = best.clone();
            c["script"][k] = val;
            try_plan(c, &mut best, &mut attempts);
        }
        if best["script"]["body"]["kind"] == "schema" {
            for (k, val) in [("pretty", json!(false)), ("errors", json!(false)), ("extensions", json!(false)), ("bare", json!(false))] {
                let mut c = best.clone();
                c["script"]["body"][k] = val;
                try_plan(c, &mut best, &mut attempts);
            }
            // the smallest fixtures first
            let mut names: Vec<&Fixture> = w.fixtures.iter().filter(|f| !f.big).collect();
            names.sort_by_key(|f| std::fs::metadata(&f.sdl_path).map(|m| m.len()).unwrap_or(0));
            for f in names.iter().take(4) {
                let mut c = best.clone();
                c["script"]["body"]["fixture"] = json!(f.name);
                c["fixture"] = json!(f.name);
                try_plan(c, &mut best, &mut attempts);
            }
            let mut c = best.clone();
            c["script"]["body"] = json!({"kind": "json", "text": "null"});
            try_plan(c, &mut best, &mut attempts);
        }
    }
    (best, attempts)
}

#[derive(Default)]
struct Agg {
    runs: u64,
    distinct: BTreeSet<String>,
    by_class: BTreeMap<String, u64>,
    fault_kinds: BTreeMap<String, u64>,
    probes: BTreeMap<String, u64>,
    exits: BTreeMap<String, u64>,
    samples: Vec<Value>,
    violations: Vec<(u64, Value, String, String)>,
    codegen_checked: u64,
    success_runs: u64,
    failure_runs: u64,
    refused_runs: u64,
}

fn bump(m: &mut BTreeMap<String, u64>, k: &str) {
    *m.entry(k.to_string()).or_default() += 1;
}

fn absorb(a: &mut Agg, sub: u64, p: &Value, o: &Outcome) {
    a.runs += 1;
    bump(&mut a.by_class, &o.class);
    bump(&mut a.exits, &format!("{}", o.obs["exit"]));
    let headers: Vec<&str> = p["headers"].as_array().map(|h| h.iter().filter_map(|x| x.as_str()).collect()).unwrap_or_default();
    let shape = format!(
        "{}{}{}|auth{}|h{}{}|out:{}|{}|{}",
        p["is_one_of"].as_bool().unwrap_or(false) as u8,
        p["specify_by_url"].as_bool().unwrap_or(false) as u8,
        p["no_ssl"].as_bool().unwrap_or(false) as u8,
        p["authorization"].is_string() as u8,
        headers.len(),
        if o.refused { "R" } else { "" },
        p["output"].as_str().unwrap_or("stdout"),
        o.class,
        o.bucket
    );
    if o.contacted || o.refused {
        a.distinct.insert(shape);
    }
    if o.refused {
        a.refused_runs += 1;
        bump(&mut a.fault_kinds, "fired:refused-header-text");
    } else if o.meaning_success {
        a.success_runs += 1;
        if p["sink"] == "is-dir" && !p["output"].is_null() {
            bump(&mut a.fault_kinds, "fired:output-path-is-a-directory(good reply)");
        }
        if (p["sink"] == "dev-null" || p["sink"] == "dev-stdout") && !p["output"].is_null() {
            bump(&mut a.fault_kinds, "fired:output-is-a-device-or-pipe(/dev/null,/dev/stdout; good reply)");
        }
        if p["sink"] == "fsize" && !p["output"].is_null() {
            bump(&mut a.fault_kinds, "fired:output-file-size-limit(good reply)");
        }
        if p["script"]["also_cl"].is_i64() && p["script"]["framing"] == "chunked" {
            bump(&mut a.fault_kinds, "fired:chunked-reply-with-content-length(good reply, either outcome accepted)");
        }
    } else {
        a.failure_runs += 1;
        let fam = o.class.split('/').next().unwrap_or("").to_string();
        let kind = if p["sink"] == "dev-full" && !o.class.contains("close-early") && !o.class.contains("no-reply") && o.class.starts_with("2xx") && o.class.ends_with("intact") {
            "output-target-full(/dev/full)".to_string()
        } else if o.class.contains("close-early") || o.class.contains("no-reply") || o.class.contains("refused-connection") {
            o.class.clone()
        } else if o.class.starts_with("stall") {
            "endpoint-stalls-until-client-timeout".to_string()
        } else if o.class.contains("cut-") {
            format!("reply-cut:{}", o.class.split('/').last().unwrap_or(""))
        } else if o.class.contains("content-length") {
            o.class.split('/').last().unwrap_or("").to_string()
        } else if fam == "2xx" {
            format!("2xx-non-json:{}", o.class.split('/').nth(1).unwrap_or(""))
        } else {
            format!("{}-reply", fam)
        };
        bump(&mut a.fault_kinds, &format!("fired:{}", kind));
    }
    if o.codegen_checked {
        a.codegen_checked += 1;
    }
    let pre = p["output"].as_str().map(|s| s != "absent").unwrap_or(false);
    if !o.meaning_success && pre && !o.refused {
        bump(&mut a.probes, "failure_with_existing_output_file");
    }
    if o.meaning_success && pre {
        bump(&mut a.probes, "success_overwriting_existing_output_file");
    }
    if o.meaning_success && p["output"] == "long-text" {
        bump(&mut a.probes, "success_overwriting_a_longer_existing_file");
    }
    if headers.iter().any(|h| !plan::header_refused(h) && plan::header_expected(h).1.contains(':')) {
        bump(&mut a.probes, "header_value_containing_colon");
    }
    if p["is_one_of"] == true && p["specify_by_url"] == true {
        bump(&mut a.probes, "both_introspection_flags");
    }
    if o.class.contains("-rst") && o.bucket == "in-body" {
        bump(&mut a.probes, "rst_mid_body");
    }
    if o.class.starts_with("slow/") {
        bump(&mut a.probes, "slow_but_live_server_reply");
    }
    if o.class.contains("cut-chunked") {
        bump(&mut a.probes, "chunked_reply_cut");
    }
    if headers.len() >= 2 {
        let names: Vec<String> = headers.iter().filter(|h| !plan::header_refused(h)).map(|h| plan::header_expected(h).0.to_ascii_lowercase()).collect();
        let set: BTreeSet<&String> = names.iter().collect();
        if set.len() < names.len() {
            bump(&mut a.probes, "repeated_header_name");
        }
    }
    if p["output"].is_null() && o.meaning_success {
        bump(&mut a.probes, "success_to_stdout");
    }
    if a.samples.len() < 3 && (a.samples.len() as u64) < a.runs / 7 + 1 {
        a.samples.push(json!({"subseed": sub, "plan": p, "observed": o.obs, "script_class": o.class}));
    }
    if let Some(v) = o.violations.first() {
        if a.violations.len() < 60 {
            a.violations.push((sub, p.clone(), v.class.clone(), v.detail.clone()));
        }
    }
}

fn main() {
    let args: Vec<String> = std::env::args().skip(1).collect();
    let cmd = args.first().cloned().unwrap_or_default();
    let mut opt: HashMap<String, String> = HashMap::new();
    let mut positional = vec![];
    let mut i = 1;
    while i < args.len() {
        if let Some(k) = args[i].strip_prefix("--") {
            if i + 1 < args.len() {
                opt.insert(k.to_string(), args[i + 1].clone());
                i += 2;
                continue;
            }
        }
        positional.push(args[i].clone());
        i += 1;
    }
    let get = |k: &str, d: &str| opt.get(k).cloned().unwrap_or_else(|| d.to_string());
    let cfg = Cfg {
        cli: PathBuf::from(get("cli", "/verif/.target/cli/debug/graphql-client")),
        repo: PathBuf::from(get("repo", "/repo")),
        work: PathBuf::from(get("work", "/verif/.work/c20")),
        evidence: PathBuf::from(get("evidence", "/verif/evidence")),
        replays: PathBuf::from(get("replays", "/verif/replays")),
        findings: PathBuf::from(get("findings", "/verif/known_findings.json")),
        jobs: simcore::env_usize("VERIF_JOBS", 16),
    };
    let tier = simcore::env_tier(&get("tier", "quick"));
    let seed = simcore::env_seed();
    let started = Instant::now();
    std::fs::create_dir_all(&cfg.work).unwrap();
    let world = load_world(&cfg.repo, &cfg.work);
    println!("C20 seed={} tier={} fixtures={} documents={}", seed, tier, world.fixtures.len(), world.docs.len());
    let with_big = tier == "thorough";

    if cmd == "replay" {
        let file = positional.first().cloned().unwrap_or_else(|| {
            eprintln!("usage: c20-sim replay <file>");
            std::process::exit(2)
        });
        let doc: Value = std::fs::read_to_string(&file).ok().and_then(|t| serde_json::from_str(&t).ok()).unwrap_or_else(|| {
            eprintln!("harness error: cannot read replay file {}", file);
            std::process::exit(2)
        });
        let o = execute(&doc["plan"], &world, &cfg, 0);
        println!("observed: {}", o.obs);
        println!("recorded: {}", doc["observed"]);
        println!("outcome fingerprint {} (recorded {})", o.fingerprint, doc["fingerprint"]);
        if o.violations.is_empty() {
            println!("replay: no violation (the property holds on this plan with the current tree)");
            std::process::exit(0);
        }
        for v in &o.violations {
            println!("replayed violation class={}\n  {}", v.class, v.detail);
        }
        println!("VIOLATION property={} replay={}", PROP, file);
        std::process::exit(1);
    }

    let n = simcore::env_usize("VERIF_C20_RUNS", if tier == "thorough" { 80_000 } else { 4_000 });
    let det_n = if cmd == "selftest" { n.max(100) } else if tier == "thorough" { 1_500 } else { 200 };
    let agg = Mutex::new(Agg::default());
    let stop = AtomicBool::new(false);
    if cmd != "selftest" {
        let next = AtomicUsize::new(0);
        std::thread::scope(|s| {
            for slot in 0..cfg.jobs {
                let (agg, stop, next, world, cfg) = (&agg, &stop, &next, &world, &cfg);
                s.spawn(move || loop {
                    let i = next.fetch_add(1, Ordering::Relaxed);
                    if i >= n || stop.load(Ordering::Relaxed) {
                        break;
                    }
                    let sub = simcore::subseed(seed, "C20/main", i as u64);
                    let p = plan::generate(sub, world, with_big, with_big);
                    let o = execute(&p, world, cfg, slot);
                    let mut a = agg.lock().unwrap();
                    absorb(&mut a, sub, &p, &o);
                    if a.violations.len() >= 60 {
                        stop.store(true, Ordering::Relaxed);
                    }
                });
            }
        });
    }
    // determinism: the same plan twice must give the same observations
    let det_diff = Mutex::new(vec![]);
    let det_done = AtomicUsize::new(0);
    {
        let next = AtomicUsize::new(0);
        std::thread::scope(|s| {
            for slot in 0..cfg.jobs {
                let (next, world, cfg, det_diff, det_done) = (&next, &world, &cfg, &det_diff, &det_done);
                s.spawn(move || loop {
                    let i = next.fetch_add(1, Ordering::Relaxed);
                    if i >= det_n {
                        break;
                    }
                    let sub = simcore::subseed(seed, "C20/determinism", i as u64);
                    let p = plan::generate(sub, world, false, false);
                    let a = execute(&p, world, cfg, slot + 100);
                    let b = execute(&p, world, cfg, slot + 100);
                    det_done.fetch_add(1, Ordering::Relaxed);
                    if a.fingerprint != b.fingerprint {
                        det_diff.lock().unwrap().push((sub, a.obs.clone(), b.obs.clone()));
                    }
                });
            }
        });
    }
    let det_diff = det_diff.into_inner().unwrap();
    let mut agg = agg.into_inner().unwrap();
    let wall = started.elapsed().as_secs_f64();

    let findings = simcore::load_findings(&cfg.findings, PROP);
    let mut known_hit: BTreeMap<String, u64> = BTreeMap::new();
    let mut reported: Vec<(String, PathBuf, usize)> = vec![];
    let mut harness_errors = vec![];
    let mut done: BTreeSet<String> = BTreeSet::new();
    let mut per_class: BTreeMap<String, usize> = BTreeMap::new();
    for (_, _, c, _) in &agg.violations {
        *per_class.entry(c.clone()).or_default() += 1;
    }
    agg.violations.sort_by_key(|(_, p, _, _)| p.to_string().len());
    for (sub, p, class, _detail) in agg.violations.clone() {
        if let Some(f) = findings.iter().find(|f| f.status == "known" && f.signature == class) {
            *known_hit.entry(f.signature.clone()).or_default() += 1;
            continue;
        }
        if done.contains(&class) || reported.len() >= 4 {
            continue;
        }
        let again = execute(&p, &world, &cfg, 0);
        if !has_class(&again, &class) {
            harness_errors.push(format!("violation class {} of sub-seed {} did not reproduce", class, sub));
            continue;
        }
        done.insert(class.clone());
        let (m, attempts) = minimise(&p, &class, &world, &cfg, 0, 60);
        let o = execute(&m, &world, &cfg, 0);
        let (m, o) = if has_class(&o, &class) { (m, o) } else { (p.clone(), again) };
        let _ = std::fs::create_dir_all(&cfg.replays);
        let path = cfg.replays.join(format!("{}-{}.json", PROP, sub));
        let v = o.violations.iter().find(|v| v.class == class).unwrap();
        let doc = json!({
            "property": PROP, "subseed": sub,
            "violation": {"class": v.class, "detail": v.detail},
            "all_violations": o.violations.iter().map(|v| v.class.clone()).collect::<Vec<_>>(),
            "plan": m, "observed": o.obs, "fingerprint": o.fingerprint, "script_class": o.class,
            "minimisation_attempts": attempts,
            "how_to_replay": format!("cd /verif && ./check C20 --replay {}", path.display()),
        });
        std::fs::write(&path, serde_json::to_string_pretty(&doc).unwrap() + "\n").unwrap();
        reported.push((class.clone(), path, per_class.get(&class).copied().unwrap_or(0)));
    }
    if !det_diff.is_empty() {
        harness_errors.push(format!("non-deterministic observations for {} plan(s), e.g. sub-seed {}: {} vs {}", det_diff.len(), det_diff[0].0, det_diff[0].1, det_diff[0].2));
    }

    let hours = wall / 3600.0;
    let coverage = json!({
        "evaluations": agg.runs,
        "distinct_nontrivial": agg.distinct.len(),
        "rule": "one evaluation = one run of the real binary against one scripted endpoint; distinct = distinct (flag set, authorization, header count/refusal, pre-existing output state, script class, cut-position bucket) tuples; non-trivial = the run contacted the endpoint or was refused for a header",
        "samples": agg.samples,
        "runs_expected_success": agg.success_runs,
        "runs_expected_failure": agg.failure_runs,
        "runs_refused_header": agg.refused_runs,
        "codegen_equivalence_checks": agg.codegen_checked,
        "script_classes": agg.by_class,
        "fault_kinds": agg.fault_kinds,
        "probes": agg.probes,
        "exit_statuses": agg.exits,
        "runs_per_hour": if hours > 0.0 { (agg.runs as f64 / hours) as u64 } else { 0 },
        "seeds": {"master": seed, "sub_seeds": agg.runs},
        "simulated_time": "no simulated clock (reqwest has no clock seam). Real time appears only in two script families whose outcome does not depend on its exact amount: slow-but-live replies (0.5-1.5 s pauses, far below the client's 30 s timeout) and, in the thorough tier, stalled endpoints that the client's own timeout must end",
        "determinism": {"plans_run_twice": det_done.load(Ordering::Relaxed), "diverging": det_diff.len()},
        "components": {
            "real": ["graphql-client binary (clap, Header::from_str, reqwest::blocking, hyper, tokio runtime thread, serde_json, file output), guard off, from /repo working tree", "graphql-client generate (both routes) for the last clause", "kernel loopback TCP"],
            "simulated": ["GraphQL endpoint (scripted: what it reads, which bytes it writes in which segments, FIN/RST/refuse)", "pre-existing output file"],
            "stubbed": ["the endpoint's executor: SDL -> introspection result converter (sim/c20-sim/src/sdl2json.rs)"],
        },
        "violation_classes_seen": per_class,
        "known_findings_matched": known_hit,
    });
    let assumptions = vec![
        "the endpoint reads the whole request before its first reply byte or writes nothing (otherwise TCP reset timing would make outcomes racy)".to_string(),
        "header names are valid HTTP tokens and values contain no control characters (so that 'carried' is well defined)".to_string(),
        "stalls/timeouts are out of scope (no clock seam in reqwest)".to_string(),
    ];
    if cmd != "selftest" {
        // (the determinism self-test explores nothing new: it must not overwrite the evidence)
        simcore::write_evidence(&cfg.evidence, PROP, &tier, seed, coverage, assumptions, wall, reported.len());
    } else {
        let _ = (&coverage, &assumptions);
    }
    for (sig, nhit) in &known_hit {
        let f = findings.iter().find(|f| &f.signature == sig).unwrap();
        println!("KNOWN-FINDING: property={} {} [{} runs]", PROP, f.what, nhit);
    }
    println!(
        "C20: {} runs ({} expected success, {} expected failure, {} refused), {} distinct non-trivial shapes, {} codegen-equivalence checks, determinism {}/{} identical, {:.1}s",
        agg.runs, agg.success_runs, agg.failure_runs, agg.refused_runs, agg.distinct.len(), agg.codegen_checked,
        det_done.load(Ordering::Relaxed) - det_diff.len(), det_done.load(Ordering::Relaxed), wall
    );
    if !reported.is_empty() {
        for (class, path, count) in &reported {
            println!("violation class={} ({} failing runs)", class, count);
            println!("VIOLATION property={} replay={}", PROP, path.display());
        }
        std::process::exit(1);
    }
    if !harness_errors.is_empty() {
        for e in harness_errors {
            eprintln!("harness error: {}", e);
        }
        std::process::exit(2);
    }
}
