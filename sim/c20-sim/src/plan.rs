//! Plans for one C20 run: CLI arguments, pre-existing output state, schema served and the byte-exact
//! endpoint script — plus the reference model that says, from the plan alone, what the reply means.
//! A plan is a JSON value so that replay files carry it verbatim.

use crate::server::Behaviour;
use serde_json::{json, Value};
use simcore::Rng;

#[derive(Clone, Debug)]
pub struct Fixture {
    pub name: String,
    pub sdl_path: String,
    pub query_path: String,
    pub big: bool,
}

pub struct World {
    pub fixtures: Vec<Fixture>,
    /// (name, path, big) of introspection results found in the repository
    pub json_files: Vec<(String, String, bool)>,
    /// (file name, text, operation name) of the four CLI introspection documents, from /repo
    pub docs: Vec<(String, String, String)>,
}

/// Does this header text belong to the class the statement says is refused?
pub fn header_refused(text: &str) -> bool {
    match text.split_once(':') {
        None => true,
        Some((name, _)) => {
            let n = name.trim();
            n.is_empty() || n.chars().any(|c| c.is_whitespace())
        }
    }
}

/// (name, value) the statement says must be carried for an accepted header text.
pub fn header_expected(text: &str) -> (String, String) {
    let (n, v) = text.split_once(':').unwrap();
    (n.trim().to_string(), v.trim().to_string())
}

// incl. names the tool itself also sets (Authorization via --authorization, Content-Type, Accept):
// the statement says every --header is carried, whatever else is sent
const NAMES: [&str; 13] = ["X-Name", "X-Api-Key", "x-trace-id", "Accept-Language", "X-Custom-Header-1", "Cookie", "X-UPPER", "x_underscore", "Authorization", "authorization", "Content-Type", "Accept", "User-Agent"];
const VALUES: [&str; 10] = [
    "Value",
    "a:b:c",
    "https://example.com/path?x=1",
    "",
    "two words",
    "Bearer something",
    "Value:",
    "caf\u{e9} \u{2603}",
    "k=v; other=\"quoted\"",
    "1234567890",
];

/// A header name made of valid HTTP token characters (so that "carried" is well defined).
fn gen_name(rng: &mut Rng) -> String {
    if rng.chance(2, 3) {
        return rng.pick(&NAMES).to_string();
    }
    const TCHAR: &[u8] = b"abcdefghijklmnopqrstuvwxyzABCDEFGHIJKLMNOPQRSTUVWXYZ0123456789-_.!#$%&'*+^`|~";
    let n = rng.range(1, 12);
    let mut s = String::from("X");
    for _ in 0..n {
        s.push(*rng.pick(TCHAR) as char);
    }
    s
}

/// A header value: printable characters incl. every separator a parser might be tempted to split
/// on, inner blanks, and some non-ASCII text; no control characters, no leading/trailing blanks.
fn gen_value(rng: &mut Rng) -> String {
    if rng.chance(1, 25) {
        // a long value, with lengths on and around typical buffer sizes
        let n = *rng.pick(&[255usize, 256, 1000, 1024, 4095, 4096, 8191, 8192, 9000]);
        let unit = *rng.pick(&["v", "ab,", "x:y ", "\u{e9}"]);
        let mut s = String::new();
        while s.chars().count() < n {
            s.push_str(unit);
        }
        return s.trim().to_string();
    }
    if rng.chance(1, 3) {
        return rng.pick(&VALUES).to_string();
    }
    const PIECES: [&str; 40] = [
        "a", "Z", "0", "value", "en", "fr", "q=0.8", ",", ",", ", ", ";", "; ", "=", ":", "::", "\"", "'", "(", ")", "[", "]", "{", "}", "<", ">", "/", "\\", "?", "@", "#", "$", "%", "%20", "&", "*", "+", " ", "\t", "\u{e9}", "\u{2603}",
    ];
    let n = rng.range(0, 8);
    let mut s = String::new();
    for _ in 0..n {
        s.push_str(*rng.pick(&PIECES[..]));
    }
    s.trim().to_string()
}

fn gen_header(rng: &mut Rng, allow_refused: bool) -> String {
    if allow_refused && rng.chance(1, 8) {
        let n = *rng.pick(&NAMES);
        return match rng.below(7) {
            0 => format!("{} Value", n),                 // no colon
            1 => ": Value".to_string(),                  // empty name
            2 => "   : Value".to_string(),               // blank name
            3 => "X Name: Value".to_string(),            // inner space
            4 => "X\tName: Value".to_string(),           // inner tab
            5 => "X\u{a0}Name: Value".to_string(),       // inner NBSP
            _ => "NoColonAtAll".to_string(),
        };
    }
    let n = gen_name(rng);
    let v = gen_value(rng);
    match rng.below(7) {
        0 => format!("{}: {}", n, v),
        1 => format!("{}:{}", n, v),
        2 => format!("{}: {} ", n, v),
        3 => format!("{}:\t{}", n, v),
        4 => format!("{} : {}", n, v),
        5 => format!(" {}: {}", n, v),
        _ => format!("{}:   {}\t ", n, v),
    }
}

const JSON_BODIES: [&str; 14] = [
    // what a server that does not know the newer introspection fields answers (graphql-js wording)
    "{\"errors\":[{\"message\":\"Cannot query field \\\"isOneOf\\\" on type \\\"__Type\\\".\",\"locations\":[{\"line\":1,\"column\":100}]}]}",
    "{\"errors\":[{\"message\":\"Cannot query field \\\"specifiedByURL\\\" on type \\\"__Type\\\". Did you mean \\\"specifiedByUrl\\\"?\"}]}",
    "{\"data\":null,\"errors\":[{\"message\":\"Cannot query field \\\"isOneOf\\\" on type \\\"__Type\\\".\"},{\"message\":\"Cannot query field \\\"specifiedByURL\\\" on type \\\"__Type\\\".\"}]}",
    // escapes, surrogate pairs, integer extremes, simple floats: "semantically unchanged" must hold
    "{\"data\":{\"s\":\"caf\\u00e9 \\ud83d\\ude00 \\/ \\\"q\\\" \\\\ \\n\\t\",\"k\\u00e9y\":1},\"n\":[0,-1,9223372036854775807,-9223372036854775808,18446744073709551615,0.5,1.25,1e2,-0.0],\"b\":[true,false,null],\"e\":{},\"a\":[]}",
    " \n{ \"data\" : { \"__schema\" : { \"types\" : [ ] , \"queryType\" : null } } }\n ",
    "null",
    "{\"data\":null,\"errors\":[{\"message\":\"introspection is disabled\"}]}",
    "[1,2,3]",
    "\"just a string\"",
    "{\"data\":{\"__schema\":null}}",
    "{}",
    "true",
    "42",
    "{\"errors\":[{\"message\":\"unauthorized\",\"extensions\":{\"code\":\"UNAUTHENTICATED\"}}]}",
];
// (label, bytes) of bodies that are not exactly one JSON value
fn garbage_bodies() -> Vec<(&'static str, Vec<u8>)> {
    vec![
        ("html", b"<html><body><h1>It works!</h1></body></html>".to_vec()),
        ("empty", vec![]),
        ("truncated-json-text", b"{\"data\": {\"__schema\": {\"types\": [".to_vec()),
        ("invalid-utf8-in-string", vec![b'{', b'"', b'a', b'"', b':', b'"', 0xff, 0xfe, b'"', b'}']),
        ("json-then-garbage", b"{\"data\":null} trailing".to_vec()),
        ("two-values", b"{\"a\":1}{\"b\":2}".to_vec()),
        ("plain-text", b"Internal Server Error".to_vec()),
        ("whitespace-only", b"  \n".to_vec()),
    ]
}

pub fn generate(seed: u64, w: &World, with_big: bool, with_stalls: bool) -> Value {
    let mut rng = Rng::new(seed);
    // swarm: which fault families are enabled in this run
    let fault_free = rng.chance(2, 5);
    let is_one_of = rng.chance(1, 2);
    let specify_by_url = rng.chance(1, 2);
    let no_ssl = rng.chance(1, 4);
    // (1 run in 40: many headers)
    let nheaders = if rng.chance(1, 40) { rng.range(30, 90) } else if rng.chance(1, 3) { 0 } else { rng.range(1, 5) };
    let allow_refused = rng.chance(1, 3);
    let headers: Vec<String> = (0..nheaders).map(|_| gen_header(&mut rng, allow_refused)).collect();
    let long_token: &'static str = Box::leak(format!("eyJ{}.sig", "Qx9_-".repeat(*rng.pick(&[60usize, 400, 1700]))).into_boxed_str());
    let authorization = if rng.chance(1, 40) {
        Some(long_token)
    } else if rng.chance(1, 3) {
        Some(*rng.pick(&["abc123", "tok.en-with_chars~", "t0ken with space", "eyJhbGciOiJIUzI1NiJ9.e30.x", "a,b", "k=v;x", "Bearer nested", "p@ss:w0rd/+=="]))
    } else {
        None
    };
    let output = if rng.chance(1, 4) {
        Value::Null
    } else {
        json!(*rng.pick(&["absent", "text", "old-schema", "long-text", "text", "stale-same-data", "not-utf8", "symlink", "empty"]))
    };
    let path = *rng.pick(&["/graphql", "/", "/api/v1/graphql?x=1&y=two", "/graphql/", "/v1/graphql;v=1", "/~user/gql", "/with%20space/graphql", "/graphql?query=%7B%7D&a=b,c", "", "/graphql#section", "/a/./b/../graphql", "//graphql", "/GraphQL", "/graphql?x=1#frag"]);
    let usable: Vec<&Fixture> = w.fixtures.iter().filter(|f| !f.big || (with_big && seed % 8 == 0) || seed % 64 == 0).collect();
    let fx = *rng.pick(&usable);
    // what the endpoint has to say
    let served = if rng.chance(1, 30) {
        // a JSON body whose length sits on or next to a typical buffer boundary, optionally with a
        // multi-byte character straddling that boundary
        // (rarely: 16 MiB, the size of a very large real-world introspection result)
        let b = if rng.chance(1, 12) { 16 * 1024 * 1024 } else { *rng.pick(&[4096usize, 8192, 16384, 32768, 65536]) };
        json!({"kind": "sized", "boundary": b, "delta": rng.range(0, 2) as i64 - 1, "multibyte": rng.chance(1, 2)})
    } else if rng.chance(1, 40) {
        json!({"kind": "deep"})
    } else if !w.json_files.is_empty() && rng.chance(1, 25) {
        // a real-world introspection result from the repository's fixtures, served byte for byte
        let candidates: Vec<&(String, String, bool)> = w.json_files.iter().filter(|(_, _, big)| !big || with_big).collect();
        if candidates.is_empty() { json!({"kind": "json", "text": "null"}) } else { json!({"kind": "file", "name": rng.pick(&candidates).0}) }
    } else if rng.chance(3, 4) {
        json!({"kind": "schema", "fixture": fx.name, "pretty": rng.chance(1, 3), "errors": rng.chance(1, 8), "extensions": rng.chance(1, 8), "bare": rng.chance(1, 10)})
    } else {
        json!({"kind": "json", "text": *rng.pick(&JSON_BODIES)})
    };
    let script = if seed % (simcore::env_usize("VERIF_C20_SLOW_MOD", 499) as u64) == 1 {
        // a slow but live server: 0.5-1.5 s before the first byte and between segments. The reply
        // is good, so the run must succeed (real time; far below the client's 30 s timeout)
        let mut r = reply(&mut rng, 200, served.clone(), true);
        // ... or, in half of these runs, 6.5 s before the only segment / 12 segments 0.7 s apart
        match rng.below(4) {
            0 => {
                r["delay_ms"] = json!(6500u64);
                r["segments"] = json!(1);
            }
            1 => {
                r["delay_ms"] = json!(700u64);
                r["segments"] = json!(12);
            }
            _ => {
                r["delay_ms"] = json!(*rng.pick(&[500u64, 900, 1500]));
                r["segments"] = json!(rng.range(1, 3));
            }
        }
        r
    } else if with_stalls && seed % (simcore::env_usize("VERIF_C20_STALL_MOD", 997) as u64) == 0 {
        // the endpoint goes silent: nothing, a partial head, or a partial body, then no more bytes.
        // Real time: the client's own 30 s timeout has to end the run.
        let mut r = reply(&mut rng, 200, served.clone(), false);
        r["kind"] = json!("stall");
        r["cut"] = match rng.below(3) {
            0 => json!({"at": "abs", "n": 0}),
            1 => json!({"at": "head-end", "delta": -5}),
            _ => json!({"at": "permille", "n": rng.range(300, 900)}),
        };
        r
    } else if fault_free {
        reply(&mut rng, 200, served.clone(), true)
    } else {
        match rng.below(12) {
            0 => json!({"kind": "refuse"}),
            1 => json!({"kind": "close-early", "after": *rng.pick(&[0usize, 1, 17, 200, 100000]), "rst": rng.chance(1, 2)}),
            2 => json!({"kind": "no-reply", "rst": rng.chance(1, 2)}),
            3 => json!({"kind": "close-early", "after": *rng.pick(&[0usize, 5, 64]), "rst": rng.chance(1, 2), "https": true}),
            4 | 5 => {
                // non-2xx with JSON, text or empty body
                let status = *rng.pick(&[400u16, 401, 403, 404, 405, 418, 429, 500, 502, 503, 504, 301, 302, 304, 599, 600, 742, 999]);
                let body = match rng.below(3) {
                    0 => served.clone(),
                    1 => json!({"kind": "json", "text": *rng.pick(&JSON_BODIES)}),
                    _ => {
                        let g = garbage_bodies();
                        let (l, _) = rng.pick(&g);
                        json!({"kind": "garbage", "label": l})
                    }
                };
                reply(&mut rng, status, body, false)
            }
            6 | 7 => {
                // 2xx + something that is not one JSON value
                let g = garbage_bodies();
                let (l, _) = rng.pick(&g);
                let status = *rng.pick(&[200u16, 200, 201, 204, 205, 206]);
                reply(&mut rng, status, json!({"kind": "garbage", "label": l}), false)
            }
            _ => {
                // a good reply that is damaged on the way: cut, wrong Content-Length
                let mut r = reply(&mut rng, 200, served.clone(), false);
                match rng.below(4) {
                    0 => r["cl_delta"] = json!(*rng.pick(&[-1i64, -7, -100, 1, 10, 1000])),
                    _ => {
                        r["cut"] = match rng.below(6) {
                            0 => json!({"at": "abs", "n": *rng.pick(&[1usize, 5, 12])}),
                            1 => json!({"at": "head-end", "delta": *rng.pick(&[-3i64, -1, 0, 1])}),
                            2 => json!({"at": "end-minus", "n": *rng.pick(&[1usize, 2, 9, 40])}),
                            _ => json!({"at": "permille", "n": rng.range(1, 999)}),
                        };
                        r["rst"] = json!(rng.chance(1, 2));
                    }
                }
                if r["cl_delta"] != json!(0) {
                    r["framing"] = json!("cl");
                }
                r
            }
        }
    };
    json!({
        "url_first": rng.chance(1, 2),
        "header_eq": rng.chance(1, 2),
        "path": path,
        "is_one_of": is_one_of,
        "specify_by_url": specify_by_url,
        "no_ssl": no_ssl,
        "authorization": authorization,
        "headers": headers,
        "output": output,
        // how the --output path is spelled: absolute, relative to the working directory, or
        // relative through a sub-directory; and the environment the tool starts in
        "output_form": *rng.pick(&["abs", "abs", "rel", "rel-sub"]),
        // the file name itself: with, without and with an unusual extension, hidden
        "output_name": *rng.pick(&["out.json", "out.json", "schema", "schema.v2.txt", ".schema", "introspection.JSON", "sch@E9@ma.json", "LONGNAME"]),
        // order of the options on the command line and `--opt value` vs `--opt=value`
        "arg_order": if rng.chance(1, 2) { rng.next_u64() >> 12 } else { 0 },
        "arg_forms": rng.next_u64() & 0x7ff,
        // fault on the storage side: the output target (file or stdout) is a full device that
        // accepts no bytes (/dev/full)
        // ... or a directory; or the file system refuses to let the file grow beyond
        // `fsize_limit` bytes (RLIMIT_FSIZE with SIGXFSZ ignored: the write that crosses the limit
        // is cut short, the next one fails with EFBIG - a full disk in miniature)
        "sink": match rng.below(50) { 0 | 1 => "dev-full", 2 => "is-dir", 3 | 4 => "fsize", 5 => "dev-null", 6 => "dev-stdout", _ => "normal" },
        "fsize_limit": *rng.pick(&[0u64, 1, 100, 4096, 8192, 65536]),
        "env": *rng.pick(&["clean", "clean", "rust-log-trace", "rust-log-cli-info", "locale-tz", "rust-log-trace", "flag-like-vars"]),
        "fixture": fx.name,
        "script": script,
    })
}

fn reply(rng: &mut Rng, status: u16, body: Value, plain: bool) -> Value {
    let unusual = !plain || rng.chance(1, 2);
    let status = if plain && unusual && rng.chance(1, 4) { *rng.pick(&[201u16, 202, 203, 206, 226, 299]) } else { status };
    let framing = if unusual { *rng.pick(&["cl", "chunked", "close"]) } else { "cl" };
    let http10 = unusual && framing != "chunked" && rng.chance(1, 6);
    json!({
        "kind": "reply",
        "status": status,
        "interim_100": unusual && !http10 && rng.chance(1, 8),
        "http10": http10,
        "content_type": if unusual { *rng.pick(&["application/json", "application/json; charset=utf-8", "application/graphql-response+json", "text/plain", ""]) } else { "application/json" },
        "framing": framing,
        "chunk": *rng.pick(&[1usize, 7, 64, 1000, 100000]),
        "body": body,
        "suffix": if unusual { *rng.pick(&["", "", "\n", "  \r\n"]) } else { "" },
        "cl_delta": 0,
        "cut": null,
        "segments": if unusual { rng.range(1, 4) } else { 1 },
        "extra_headers": if unusual && rng.chance(1, 3) { json!([["Connection", "close"]]) } else if unusual && rng.chance(1, 4) { json!([["X-Powered-By", "stub"], ["Set-Cookie", "a=b; Path=/"]]) } else { json!([]) },
        "rst": false,
        "chunk_ext": unusual && rng.chance(1, 4),
        "trailers": unusual && rng.chance(1, 4),
        "odd_case": unusual && rng.chance(1, 4),
        // a chunked reply that carries a Content-Length as well (equal to or different from the
        // decoded length). RFC 9112 6.3: Transfer-Encoding overrides, and a recipient may also
        // treat the message as an error, so either outcome is accepted for these replies (success
        // with exactly the JSON, or a reported failure with the output untouched).
        "also_cl": if framing == "chunked" && rng.chance(1, 5) { json!(*rng.pick(&[0i64, -5, 40])) } else { Value::Null },
    })
}

#[derive(Clone, Debug, PartialEq)]
pub enum Meaning {
    /// never reaches the endpoint
    Refused,
    /// no complete HTTP response is delivered
    Broken(String),
    /// a complete response
    Complete { status: u16, body: Vec<u8> },
}

pub struct Built {
    pub behaviour: Behaviour,
    pub meaning: Meaning,
    pub class: String,
    pub cut_bucket: String,
    /// the reply is one a client may either accept or reject (see `also_cl`)
    pub either_ok: bool,
}

fn reason(status: u16) -> &'static str {
    match status {
        200 => "OK", 201 => "Created", 202 => "Accepted", 203 => "Non-Authoritative Information",
        204 => "No Content", 205 => "Reset Content", 206 => "Partial Content",
        301 => "Moved Permanently", 302 => "Found", 304 => "Not Modified",
        400 => "Bad Request", 401 => "Unauthorized", 403 => "Forbidden", 404 => "Not Found",
        405 => "Method Not Allowed", 418 => "I'm a teapot", 429 => "Too Many Requests",
        500 => "Internal Server Error", 502 => "Bad Gateway", 503 => "Service Unavailable",
        504 => "Gateway Timeout", _ => "Status",
    }
}

/// The body bytes a body spec stands for. `served_json` is the envelope for "schema" bodies.
pub fn body_bytes(spec: &Value, served_json: &dyn Fn(&Value) -> Vec<u8>) -> Vec<u8> {
    match spec["kind"].as_str().unwrap_or("") {
        "schema" => served_json(spec),
        "json" => spec["text"].as_str().unwrap_or("null").as_bytes().to_vec(),
        "file" => served_json(spec),
        "sized" => {
            let boundary = spec["boundary"].as_u64().unwrap_or(8192) as usize;
            let mb = spec["multibyte"].as_bool().unwrap_or(false);
            // (with a straddling character the body has to extend a little beyond the boundary)
            let total = (boundary as i64 + spec["delta"].as_i64().unwrap_or(0) + if mb { 16 } else { 0 }) as usize;
            // {"p":"<filler>"} has 8 bytes of framing
            let mut filler = vec![b'a'; total.saturating_sub(8)];
            if spec["multibyte"].as_bool().unwrap_or(false) && filler.len() > 8 {
                // a 3-byte character whose bytes lie on both sides of the boundary
                let at = (boundary.saturating_sub(6 + 1)).min(filler.len() - 3);
                filler[at] = 0xE2;
                filler[at + 1] = 0x82;
                filler[at + 2] = 0xAC;
            }
            let mut v = b"{\"p\":\"".to_vec();
            v.extend_from_slice(&filler);
            v.extend_from_slice(b"\"}");
            v
        }
        // valid JSON nested 100 levels deep (well inside what the shipped tool accepts)
        "deep" => {
            let mut s = String::new();
            for i in 0..50 {
                s.push_str(if i % 2 == 0 { "{\"a\":[" } else { "[{\"b\":" });
            }
            s.push_str("0");
            for i in (0..50).rev() {
                s.push_str(if i % 2 == 0 { "]}" } else { "}]" });
            }
            s.into_bytes()
        }
        "garbage" => {
            let l = spec["label"].as_str().unwrap_or("");
            garbage_bodies().into_iter().find(|(k, _)| *k == l).map(|(_, b)| b).unwrap_or_default()
        }
        _ => vec![],
    }
}

/// Builds the endpoint behaviour and, independently of any client, what the reply means.
pub fn build(script: &Value, served_json: &dyn Fn(&Value) -> Vec<u8>) -> Built {
    match script["kind"].as_str().unwrap_or("") {
        "refuse" => Built { behaviour: Behaviour::Refuse, meaning: Meaning::Broken("connection refused".into()), class: "refused-connection".into(), cut_bucket: "-".into(), either_ok: false },
        "close-early" => {
            let rst = script["rst"].as_bool().unwrap_or(false);
            let after = script["after"].as_u64().unwrap_or(0) as usize;
            let https = script["https"].as_bool().unwrap_or(false);
            Built {
                behaviour: Behaviour::CloseEarly { after, rst },
                meaning: Meaning::Broken("closed before the request was read".into()),
                class: format!("{}close-early-{}", if https { "tls-to-plaintext-" } else { "" }, if rst { "rst" } else { "fin" }),
                cut_bucket: if after == 0 { "0".into() } else if after < 100 { "<100".into() } else { ">=100".into() },
                either_ok: false,
            }
        }
        "no-reply" => {
            let rst = script["rst"].as_bool().unwrap_or(false);
            Built { behaviour: Behaviour::NoReply { rst }, meaning: Meaning::Broken("request read, no reply".into()), class: format!("no-reply-{}", if rst { "rst" } else { "fin" }), cut_bucket: "-".into(), either_ok: false }
        }
        "stall" => {
            // same bytes as the reply cut at that point, but the connection stays open
            let b = build_reply(script, served_json);
            let segments = match b.behaviour {
                Behaviour::Reply { segments, .. } => segments,
                _ => vec![],
            };
            Built { behaviour: Behaviour::Stall { segments }, meaning: Meaning::Broken("endpoint went silent; the client's timeout ends the exchange".into()), class: format!("stall-after-{}", b.cut_bucket), cut_bucket: b.cut_bucket, either_ok: false }
        }
        _ => build_reply(script, served_json),
    }
}

fn build_reply(r: &Value, served_json: &dyn Fn(&Value) -> Vec<u8>) -> Built {
    let status = r["status"].as_u64().unwrap_or(200) as u16;
    let http10 = r["http10"].as_bool().unwrap_or(false);
    let mut framing = r["framing"].as_str().unwrap_or("cl").to_string();
    if http10 && framing == "chunked" {
        framing = "close".into();
    }
    let no_body_status = status == 204 || status == 304;
    let mut body = if no_body_status { vec![] } else { body_bytes(&r["body"], served_json) };
    if !no_body_status {
        body.extend_from_slice(r["suffix"].as_str().unwrap_or("").as_bytes());
    }
    if status == 205 {
        body.clear();
        framing = "cl".into();
    }
    let cl_delta = if framing == "cl" && !no_body_status && status != 205 { r["cl_delta"].as_i64().unwrap_or(0) } else { 0 };
    let mut head = vec![];
    if r["interim_100"].as_bool().unwrap_or(false) && !http10 {
        head.extend_from_slice(b"HTTP/1.1 100 Continue\r\n\r\n");
    }
    let interim_len = head.len();
    head.extend_from_slice(format!("HTTP/{} {} {}\r\n", if http10 { "1.0" } else { "1.1" }, status, reason(status)).as_bytes());
    let ct = r["content_type"].as_str().unwrap_or("");
    if !ct.is_empty() && !no_body_status {
        head.extend_from_slice(format!("Content-Type: {}\r\n", ct).as_bytes());
    }
    if let Some(extra) = r["extra_headers"].as_array() {
        for h in extra {
            head.extend_from_slice(format!("{}: {}\r\n", h[0].as_str().unwrap_or("X"), h[1].as_str().unwrap_or("")).as_bytes());
        }
    }
    let declared = (body.len() as i64 + cl_delta).max(0) as usize;
    let mut encoded = vec![];
    let mut either_ok = false;
    if no_body_status {
        // no framing headers, no body
    } else {
        match framing.as_str() {
            "cl" => {
                head.extend_from_slice(format!("Content-Length: {}\r\n", declared).as_bytes());
                encoded = body.clone();
            }
            "chunked" => {
                head.extend_from_slice(b"Transfer-Encoding: chunked\r\n");
                if let Some(d) = r["also_cl"].as_i64() {
                    head.extend_from_slice(format!("Content-Length: {}\r\n", (body.len() as i64 + d).max(0)).as_bytes());
                    either_ok = true;
                }
                let chunk = r["chunk"].as_u64().unwrap_or(64).max(1) as usize;
                // (very large bodies are not sent in chunks of a few bytes)
                let chunk = if body.len() > (1 << 20) { chunk.max(1000) } else { chunk };
                let ext = if r["chunk_ext"].as_bool().unwrap_or(false) { ";ext=1;q=\"x\"" } else { "" };
                for (i, c) in body.chunks(chunk).enumerate() {
                    // only on the first chunks: HTTP clients cap the total size of chunk extensions
                    let ext = if i < 3 { ext } else { "" };
                    encoded.extend_from_slice(format!("{:x}{}\r\n", c.len(), ext).as_bytes());
                    encoded.extend_from_slice(c);
                    encoded.extend_from_slice(b"\r\n");
                }
                if r["trailers"].as_bool().unwrap_or(false) {
                    encoded.extend_from_slice(b"0\r\nX-Checksum: abc123\r\nX-Other-Trailer: 1\r\n\r\n");
                } else {
                    encoded.extend_from_slice(b"0\r\n\r\n");
                }
            }
            _ => {
                if !http10 {
                    head.extend_from_slice(b"Connection: close\r\n");
                }
                encoded = body.clone();
            }
        }
    }
    if r["odd_case"].as_bool().unwrap_or(false) {
        // header names are case-insensitive
        let text = String::from_utf8_lossy(&head).to_string();
        let text = text.replace("Content-Length:", "cOnTeNt-lEnGtH:").replace("Transfer-Encoding:", "TRANSFER-ENCODING:").replace("Content-Type:", "content-TYPE:").replace("Connection:", "cONNECTION:");
        head = text.into_bytes();
    }
    head.extend_from_slice(b"\r\n");
    let head_len = head.len();
    let mut all = head;
    all.extend_from_slice(&encoded);
    let total = all.len();
    // resolve the cut
    let mut cut: Option<usize> = match r["cut"]["at"].as_str() {
        Some("abs") => Some(r["cut"]["n"].as_u64().unwrap_or(0) as usize),
        Some("head-end") => Some((head_len as i64 + r["cut"]["delta"].as_i64().unwrap_or(0)).max(0) as usize),
        Some("end-minus") => Some(total.saturating_sub(r["cut"]["n"].as_u64().unwrap_or(1) as usize)),
        Some("permille") => Some(total * (r["cut"]["n"].as_u64().unwrap_or(500) as usize) / 1000),
        _ => None,
    };
    if let Some(c) = cut {
        if c >= total {
            cut = None;
        }
    }
    if let (Some(c), "chunked") = (cut, framing.as_str()) {
        // the last bytes of the terminal chunk are arguable: stay clear of them
        if c + 5 > total && c >= head_len {
            cut = Some(total.saturating_sub(6).max(head_len.min(total)));
        }
    }
    let mut rst = r["rst"].as_bool().unwrap_or(false);
    let meaning;
    let mut bucket = "-".to_string();
    match cut {
        Some(c) => {
            bucket = if c < interim_len.max(1) { "in-interim-or-start".into() } else if c < head_len { "in-head".into() } else if c == head_len { "at-head-end".into() } else if c + 10 >= total { "near-end".into() } else { "in-body".into() };
            if c < head_len {
                meaning = Meaning::Broken("reply cut inside the status line / headers".into());
            } else if no_body_status {
                meaning = Meaning::Complete { status, body: vec![] };
            } else {
                let got = c - head_len;
                match framing.as_str() {
                    "cl" => {
                        if got >= declared {
                            meaning = Meaning::Complete { status, body: body[..declared.min(body.len())].to_vec() };
                            rst = false;
                        } else {
                            meaning = Meaning::Broken("body shorter than Content-Length".into());
                        }
                    }
                    "chunked" => meaning = Meaning::Broken("chunked body without terminal chunk".into()),
                    _ => {
                        // close-delimited: the cut body *is* the body; an RST would make it racy
                        rst = false;
                        meaning = Meaning::Complete { status, body: body[..got.min(body.len())].to_vec() };
                    }
                }
            }
            all.truncate(c);
        }
        None => {
            rst = false; // a complete reply is always followed by an orderly close
            if no_body_status {
                meaning = Meaning::Complete { status, body: vec![] };
            } else if framing == "cl" && cl_delta > 0 {
                meaning = Meaning::Broken("Content-Length larger than the body sent".into());
            } else if framing == "cl" {
                meaning = Meaning::Complete { status, body: body[..declared.min(body.len())].to_vec() };
            } else {
                meaning = Meaning::Complete { status, body: body.clone() };
            }
        }
    }
    let nseg = r["segments"].as_u64().unwrap_or(1).max(1) as usize;
    let mut segments = vec![];
    if all.is_empty() {
        // nothing to write
    } else {
        let per = (all.len() + nseg - 1) / nseg;
        for c in all.chunks(per.max(1)) {
            segments.push(c.to_vec());
        }
    }
    let class = {
        let b = r["body"]["kind"].as_str().unwrap_or("");
        let bl = if b == "garbage" { format!("garbage:{}", r["body"]["label"].as_str().unwrap_or("")) } else { b.to_string() };
        let damage = if cut.is_some() { format!("cut-{}{}", framing, if rst { "-rst" } else { "-fin" }) } else if cl_delta < 0 { "content-length-short".into() } else if cl_delta > 0 { "content-length-long".into() } else { "intact".into() };
        format!("{}xx/{}/{}{}/{}", status / 100, bl, framing, if either_ok { "+content-length" } else { "" }, damage)
    };
    // Content negotiation: an endpoint that is *asked* for a compressed reply (Accept-Encoding:
    // gzip) sends one. Only for intact, length-framed replies with a body; the shipped tool never
    // asks, so for it nothing changes. (The gzip stream uses stored blocks: no compressor needed.)
    let gzip_segments = if cut.is_none() && cl_delta == 0 && framing == "cl" && !no_body_status && status != 205 {
        let gz = gzip_stored(&body);
        let mut alt = format!("HTTP/1.1 {} {}\r\nContent-Type: application/json\r\nContent-Encoding: gzip\r\nVary: Accept-Encoding\r\nContent-Length: {}\r\n\r\n", status, reason(status), gz.len()).into_bytes();
        alt.extend_from_slice(&gz);
        Some(vec![alt])
    } else {
        None
    };
    Built { behaviour: Behaviour::Reply { segments, rst, delay_ms: r["delay_ms"].as_u64().unwrap_or(0), gzip_segments }, meaning, class: if r["delay_ms"].as_u64().unwrap_or(0) > 0 { format!("slow/{}", class) } else { class }, cut_bucket: bucket, either_ok }
}

pub fn success_expected(m: &Meaning) -> bool {
    match m {
        Meaning::Complete { status, body } => (200..300).contains(status) && serde_json::from_slice::<Value>(body).is_ok(),
        _ => false,
    }
}

/// The request target a URL with this path part must produce (RFC 3986: the fragment is not sent,
/// an empty path becomes "/", dot segments are removed; everything else is kept as written).
pub fn expected_target(path: &str) -> String {
    let no_frag = path.split('#').next().unwrap_or("");
    let (p, q) = match no_frag.find('?') {
        Some(i) => (&no_frag[..i], Some(&no_frag[i..])),
        None => (no_frag, None),
    };
    let mut out: Vec<&str> = vec![];
    let segs: Vec<&str> = p.split('/').collect();
    for (i, seg) in segs.iter().enumerate().skip(1) {
        let last = i + 1 == segs.len();
        match *seg {
            "." => {
                if last {
                    out.push("");
                }
            }
            ".." => {
                out.pop();
                if last {
                    out.push("");
                }
            }
            x => out.push(x),
        }
    }
    let mut t = String::new();
    for seg in &out {
        t.push('/');
        t.push_str(seg);
    }
    if t.is_empty() {
        t.push('/');
    }
    t + q.unwrap_or("")
}

fn crc32(data: &[u8]) -> u32 {
    let mut crc = 0xffff_ffffu32;
    for b in data {
        crc ^= *b as u32;
        for _ in 0..8 {
            crc = if crc & 1 != 0 { (crc >> 1) ^ 0xedb8_8320 } else { crc >> 1 };
        }
    }
    !crc
}

/// A valid gzip stream holding `data` in stored (uncompressed) deflate blocks.
pub fn gzip_stored(data: &[u8]) -> Vec<u8> {
    let mut out = vec![0x1f, 0x8b, 0x08, 0x00, 0, 0, 0, 0, 0x00, 0x03];
    let chunks: Vec<&[u8]> = if data.is_empty() { vec![&data[..]] } else { data.chunks(65535).collect() };
    for (i, c) in chunks.iter().enumerate() {
        out.push(if i + 1 == chunks.len() { 1 } else { 0 });
        let len = c.len() as u16;
        out.extend_from_slice(&len.to_le_bytes());
        out.extend_from_slice(&(!len).to_le_bytes());
        out.extend_from_slice(c);
    }
    out.extend_from_slice(&crc32(data).to_le_bytes());
    out.extend_from_slice(&(data.len() as u32).to_le_bytes());
    out
}

#[cfg(test)]
mod tests {
    #[test]
    fn gzip_stored_is_a_valid_gzip_stream() {
        for data in [Vec::new(), b"{}".to_vec(), "hello \u{e9} ".repeat(30000).into_bytes()] {
            let gz = super::gzip_stored(&data);
            let dir = std::env::temp_dir().join(format!("c20-gz-{}", std::process::id()));
            std::fs::create_dir_all(&dir).unwrap();
            let f = dir.join("x.gz");
            std::fs::write(&f, &gz).unwrap();
            let out = std::process::Command::new("gzip").arg("-dc").arg(&f).output().unwrap();
            assert!(out.status.success(), "{}", String::from_utf8_lossy(&out.stderr));
            assert_eq!(out.stdout, data);
            let _ = std::fs::remove_dir_all(&dir);
        }
    }
    #[test]
    fn expected_target_model() {
        for (p, t) in [("", "/"), ("/graphql#s", "/graphql"), ("/a/./b/../graphql", "/a/graphql"), ("//graphql", "//graphql"), ("/graphql?x=1#f", "/graphql?x=1"), ("/graphql/", "/graphql/"), ("/a/..", "/"), ("/v1/graphql;v=1", "/v1/graphql;v=1")] {
            assert_eq!(super::expected_target(p), t, "{}", p);
        }
    }
}
