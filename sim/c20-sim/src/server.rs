//! The scripted loopback endpoint (the simulated second party of C20).
//!
//! Determinism rule: the endpoint either reads the complete request before it writes its first
//! byte, or it writes nothing at all. Closing is either an orderly FIN or an RST (SO_LINGER 0).

use std::io::{Read, Write};
use std::net::{TcpListener, TcpStream};
use std::os::fd::{AsRawFd, FromRawFd, RawFd};
use std::sync::atomic::{AtomicBool, Ordering};
use std::sync::{Arc, Mutex};
use std::time::Duration;

#[derive(Clone, Debug)]
pub enum Behaviour {
    /// A bound but not listening socket: connecting is refused, and the port stays reserved.
    Refuse,
    /// Accept, read at most `after` bytes of the request, write nothing, close.
    CloseEarly { after: usize, rst: bool },
    /// Read the complete request, write nothing, close.
    NoReply { rst: bool },
    /// Read the complete request, then write `segments` and close.
    /// `delay_ms`: pause before the first byte and between segments (a slow but live server).
    /// `gzip_segments`: what is written instead when the request asks for gzip (Accept-Encoding).
    Reply { segments: Vec<Vec<u8>>, rst: bool, delay_ms: u64, gzip_segments: Option<Vec<Vec<u8>>> },
    /// Read the complete request, write `segments` (possibly none), then go silent while keeping
    /// the connection open until the client gives up (real time: the client's own timeout).
    Stall { segments: Vec<Vec<u8>> },
}

#[derive(Clone, Debug, Default)]
pub struct Request {
    pub complete: bool,
    pub raw: Vec<u8>,
    pub method: String,
    pub target: String,
    pub headers: Vec<(String, Vec<u8>)>,
    pub body: Vec<u8>,
}

#[derive(Clone, Debug, Default)]
pub struct Observed {
    pub connections: usize,
    pub requests: Vec<Request>,
    pub bytes_written: usize,
    pub stalled_for_ms: u64,
    pub gzip_served: bool,
}

pub struct Endpoint {
    pub port: u16,
    stop: Arc<AtomicBool>,
    obs: Arc<Mutex<Observed>>,
    handle: Option<std::thread::JoinHandle<()>>,
    _reserved: Option<Reserved>,
}

struct Reserved(RawFd);
impl Drop for Reserved {
    fn drop(&mut self) {
        unsafe {
            libc::close(self.0);
        }
    }
}

fn find(hay: &[u8], needle: &[u8]) -> Option<usize> {
    hay.windows(needle.len()).position(|w| w == needle)
}

/// Parses what has been read so far; `complete` when headers and Content-Length bytes are in.
pub fn parse_request(raw: &[u8]) -> Request {
    let mut r = Request { raw: raw.to_vec(), ..Default::default() };
    let Some(hend) = find(raw, b"\r\n\r\n") else { return r };
    let head = &raw[..hend];
    let mut lines = head.split(|b| *b == b'\n').map(|l| l.strip_suffix(b"\r").unwrap_or(l));
    if let Some(first) = lines.next() {
        let s = String::from_utf8_lossy(first);
        let mut it = s.split(' ');
        r.method = it.next().unwrap_or("").to_string();
        r.target = it.next().unwrap_or("").to_string();
    }
    let mut content_length = 0usize;
    for l in lines {
        if let Some(c) = l.iter().position(|b| *b == b':') {
            let name = String::from_utf8_lossy(&l[..c]).to_string();
            let mut v = &l[c + 1..];
            while let [b' ' | b'\t', rest @ ..] = v {
                v = rest;
            }
            while let [rest @ .., b' ' | b'\t'] = v {
                v = rest;
            }
            if name.eq_ignore_ascii_case("content-length") {
                content_length = String::from_utf8_lossy(v).trim().parse().unwrap_or(0);
            }
            r.headers.push((name, v.to_vec()));
        }
    }
    let body = &raw[hend + 4..];
    let chunked = r.headers.iter().any(|(n, v)| n.eq_ignore_ascii_case("transfer-encoding") && String::from_utf8_lossy(v).to_ascii_lowercase().contains("chunked"));
    if chunked {
        // a client is free to send its body chunked: decode it
        let mut out = vec![];
        let mut rest = body;
        loop {
            let Some(eol) = find(rest, b"\r\n") else { return r };
            let size_txt = String::from_utf8_lossy(&rest[..eol]).to_string();
            let Ok(size) = usize::from_str_radix(size_txt.split(';').next().unwrap_or("").trim(), 16) else { return r };
            rest = &rest[eol + 2..];
            if size == 0 {
                // trailers until an empty line
                if find(rest, b"\r\n").map(|p| p == 0).unwrap_or(false) || find(rest, b"\r\n\r\n").is_some() {
                    r.body = out;
                    r.complete = true;
                }
                return r;
            }
            if rest.len() < size + 2 {
                return r;
            }
            out.extend_from_slice(&rest[..size]);
            rest = &rest[size + 2..];
        }
    }
    if body.len() >= content_length {
        r.body = body[..content_length].to_vec();
        r.complete = true;
    }
    r
}

fn set_linger0(s: &TcpStream) {
    let l = libc::linger { l_onoff: 1, l_linger: 0 };
    unsafe {
        libc::setsockopt(
            s.as_raw_fd(),
            libc::SOL_SOCKET,
            libc::SO_LINGER,
            &l as *const _ as *const libc::c_void,
            std::mem::size_of::<libc::linger>() as libc::socklen_t,
        );
    }
}

fn handle(mut s: TcpStream, b: &Behaviour, obs: &Arc<Mutex<Observed>>, stop: &Arc<AtomicBool>) {
    let _ = s.set_nodelay(true);
    let _ = s.set_read_timeout(Some(Duration::from_secs(20)));
    let mut raw = vec![];
    let mut buf = [0u8; 16384];
    let limit = match b {
        Behaviour::CloseEarly { after, .. } => Some(*after),
        _ => None,
    };
    loop {
        if let Some(l) = limit {
            if raw.len() >= l {
                break;
            }
        }
        if parse_request(&raw).complete {
            break;
        }
        let want = match limit {
            Some(l) => (l - raw.len()).min(buf.len()),
            None => buf.len(),
        };
        match s.read(&mut buf[..want]) {
            Ok(0) => break,
            Ok(n) => raw.extend_from_slice(&buf[..n]),
            Err(_) => break,
        }
    }
    let req = parse_request(&raw);
    let complete = req.complete;
    obs.lock().unwrap().requests.push(req);
    let rst = match b {
        Behaviour::CloseEarly { rst, .. } | Behaviour::NoReply { rst } | Behaviour::Reply { rst, .. } => *rst,
        Behaviour::Refuse | Behaviour::Stall { .. } => false,
    };
    if let (Behaviour::Stall { segments }, true) = (b, complete) {
        let mut written = 0;
        for seg in segments {
            if s.write_all(seg).is_err() {
                break;
            }
            let _ = s.flush();
            written += seg.len();
        }
        obs.lock().unwrap().bytes_written += written;
        // silence: wait for the client to close (or for the harness to stop the endpoint)
        let _ = s.set_read_timeout(Some(Duration::from_millis(100)));
        let mut sink = [0u8; 1024];
        let started = std::time::Instant::now();
        while !stop.load(Ordering::Relaxed) && started.elapsed() < Duration::from_secs(100) {
            match s.read(&mut sink) {
                Ok(0) => break,
                Ok(_) => {}
                Err(e) if e.kind() == std::io::ErrorKind::WouldBlock || e.kind() == std::io::ErrorKind::TimedOut => {}
                Err(_) => break,
            }
        }
        obs.lock().unwrap().stalled_for_ms = started.elapsed().as_millis() as u64;
        return;
    }
    if let (Behaviour::Reply { segments, delay_ms, gzip_segments, .. }, true) = (b, complete) {
        let asks_gzip = parse_request(&raw).headers.iter().any(|(n, v)| n.eq_ignore_ascii_case("accept-encoding") && String::from_utf8_lossy(v).to_ascii_lowercase().contains("gzip"));
        let segments = match (asks_gzip, gzip_segments) {
            (true, Some(g)) => {
                obs.lock().unwrap().gzip_served = true;
                g
            }
            _ => segments,
        };
        let mut written = 0;
        for (i, seg) in segments.iter().enumerate() {
            if *delay_ms > 0 {
                // a slow server (real time, far below the client's 30 s timeout)
                std::thread::sleep(Duration::from_millis(*delay_ms));
            } else if i > 0 {
                // only to encourage separate TCP segments; outcome-neutral
                std::thread::sleep(Duration::from_millis(1));
            }
            if s.write_all(seg).is_err() {
                break;
            }
            let _ = s.flush();
            written += seg.len();
        }
        obs.lock().unwrap().bytes_written += written;
    }
    if rst {
        set_linger0(&s);
        drop(s);
    } else {
        let _ = s.shutdown(std::net::Shutdown::Write);
        // orderly close: wait for the peer's FIN (or its reset) so that no unread data turns
        // our close into a reset
        let _ = s.set_read_timeout(Some(Duration::from_secs(5)));
        let mut sink = [0u8; 4096];
        loop {
            match s.read(&mut sink) {
                Ok(0) | Err(_) => break,
                Ok(_) => {}
            }
        }
        drop(s);
    }
}

impl Endpoint {
    pub fn start(b: Behaviour) -> Endpoint {
        let stop = Arc::new(AtomicBool::new(false));
        let obs = Arc::new(Mutex::new(Observed::default()));
        if let Behaviour::Refuse = b {
            // socket + bind, no listen
            unsafe {
                let fd = libc::socket(libc::AF_INET, libc::SOCK_STREAM, 0);
                assert!(fd >= 0);
                let mut addr: libc::sockaddr_in = std::mem::zeroed();
                addr.sin_family = libc::AF_INET as libc::sa_family_t;
                addr.sin_port = 0;
                addr.sin_addr.s_addr = u32::from_ne_bytes([127, 0, 0, 1]);
                let rc = libc::bind(fd, &addr as *const _ as *const libc::sockaddr, std::mem::size_of::<libc::sockaddr_in>() as u32);
                assert_eq!(rc, 0);
                let mut len = std::mem::size_of::<libc::sockaddr_in>() as libc::socklen_t;
                libc::getsockname(fd, &mut addr as *mut _ as *mut libc::sockaddr, &mut len);
                let port = u16::from_be(addr.sin_port);
                return Endpoint { port, stop, obs, handle: None, _reserved: Some(Reserved(fd)) };
            }
        }
        let listener = TcpListener::bind("127.0.0.1:0").expect("bind loopback");
        let port = listener.local_addr().unwrap().port();
        listener.set_nonblocking(true).unwrap();
        let (stop2, obs2) = (stop.clone(), obs.clone());
        let handle = std::thread::spawn(move || {
            while !stop2.load(Ordering::Relaxed) {
                match listener.accept() {
                    Ok((s, _)) => {
                        let _ = s.set_nonblocking(false);
                        obs2.lock().unwrap().connections += 1;
                        handle(s, &b, &obs2, &stop2);
                    }
                    Err(_) => std::thread::sleep(Duration::from_micros(300)),
                }
            }
        });
        Endpoint { port, stop, obs, handle: Some(handle), _reserved: None }
    }

    pub fn finish(mut self) -> Observed {
        self.stop.store(true, Ordering::Relaxed);
        if let Some(h) = self.handle.take() {
            let _ = h.join();
        }
        let o = self.obs.lock().unwrap().clone();
        o
    }
}

#[allow(dead_code)]
pub fn _unused(fd: RawFd) -> TcpStream {
    unsafe { TcpStream::from_raw_fd(fd) }
}
