//! c08-worker — one *simulated process* of the C08 simulation.
//!
//! It links the real `graphql_client_codegen` from /repo's working tree. Built twice:
//!
//! * guard off (shipped code): runs a call list sequentially on one thread — the reference
//!   ("the same call made alone in a fresh process") and sequential histories;
//! * `--cfg graphql_client_verif`: additionally registers the scheduler below through the
//!   `verif_hooks` seam, so that 1..16 real caller threads run the real generator while *this
//!   program* decides which single thread is runnable at every scheduling point.
//!
//! Input: a JSON plan (file given as argv[1]). Output: one JSON object on stdout.
//! Nothing here reads a clock or draws randomness except from the plan's seed.

use graphql_client_codegen::{
    deprecation::DeprecationStrategy, generate_module_token_stream,
    generate_module_token_stream_from_string, normalization::Normalization, CodegenMode,
    GraphQLClientCodegenOptions,
};
use serde_json::{json, Value};
use std::panic::{catch_unwind, AssertUnwindSafe};
use std::path::PathBuf;

const STACK: usize = 16 << 20;

#[derive(Clone, Debug)]
pub struct Outcome {
    pub kind: &'static str, // ok | err | panic
    pub text: String,
}

impl Outcome {
    fn to_json(&self, dump: bool) -> Value {
        let head: String = self.text.chars().take(200).collect();
        let mut v = json!({
            "k": self.kind,
            "h": simcore::fingerprint(self.text.as_bytes()),
            "len": self.text.len(),
            "head": head,
            "inj": self.text.contains("verif-injected-EIO") || self.text.contains("verif-injected-panic"),
            "poisoned": self.text.contains("poisoned"),
        });
        if dump {
            v["text"] = Value::String(self.text.clone());
        }
        v
    }
}

fn build_options(o: &Value) -> Result<GraphQLClientCodegenOptions, String> {
    let mode = match o["mode"].as_str().unwrap_or("cli") {
        "derive" => CodegenMode::Derive,
        _ => CodegenMode::Cli,
    };
    let mut opts = GraphQLClientCodegenOptions::new(mode);
    if let Some(s) = o["operation_name"].as_str() {
        opts.set_operation_name(s.to_string());
    }
    if let Some(s) = o["struct_name"].as_str() {
        opts.set_struct_name(s.to_string());
    }
    if let Some(s) = o["struct_ident"].as_str() {
        let ident: proc_macro2::Ident =
            syn::parse_str(s).map_err(|e| format!("options: struct_ident: {}", e))?;
        opts.set_struct_ident(ident);
    }
    if let Some(s) = o["variables_derives"].as_str() {
        opts.set_variables_derives(s.to_string());
    }
    if let Some(s) = o["response_derives"].as_str() {
        opts.set_response_derives(s.to_string());
    }
    if let Some(s) = o["deprecation"].as_str() {
        let d: DeprecationStrategy = s
            .parse()
            .map_err(|_| format!("options: deprecation: {}", s))?;
        opts.set_deprecation_strategy(d);
    }
    if let Some(s) = o["visibility"].as_str() {
        let v: syn::Visibility =
            syn::parse_str(s).map_err(|e| format!("options: visibility: {}", e))?;
        opts.set_module_visibility(v);
    }
    if let Some(s) = o["query_file"].as_str() {
        opts.set_query_file(PathBuf::from(s));
    }
    if let Some(s) = o["normalization"].as_str() {
        let n: Normalization = s
            .parse()
            .map_err(|_| format!("options: normalization: {}", s))?;
        opts.set_normalization(n);
    }
    if let Some(s) = o["custom_scalars_module"].as_str() {
        let p: syn::Path =
            syn::parse_str(s).map_err(|e| format!("options: custom_scalars_module: {}", e))?;
        opts.set_custom_scalars_module(p);
    }
    if let Some(a) = o["extern_enums"].as_array() {
        opts.set_extern_enums(
            a.iter()
                .filter_map(|x| x.as_str().map(|s| s.to_string()))
                .collect(),
        );
    }
    if let Some(b) = o["fragments_other_variant"].as_bool() {
        opts.set_fragments_other_variant(b);
    }
    if let Some(b) = o["skip_serializing_none"].as_bool() {
        opts.set_skip_serializing_none(b);
    }
    if let Some(s) = o["serde_path"].as_str() {
        let p: syn::Path = syn::parse_str(s).map_err(|e| format!("options: serde_path: {}", e))?;
        opts.set_serde_path(p);
    }
    Ok(opts)
}

/// Executes one generation call against the real library; every way it can end becomes a value.
fn run_call(call: &Value) -> Outcome {
    let r = catch_unwind(AssertUnwindSafe(|| -> Result<String, String> {
        let opts = build_options(&call["opts"])?;
        let schema = PathBuf::from(call["schema"].as_str().unwrap_or(""));
        let res = match call["entry"].as_str().unwrap_or("file") {
            "string" => {
                // the query text is an *argument* of this entry point: read it outside the library
                let text = std::fs::read(call["query"].as_str().unwrap_or(""))
                    .map(|b| String::from_utf8_lossy(&b).into_owned())
                    .unwrap_or_default();
                // the same document, spelled with different surrounding whitespace
                let text = match call["text_form"].as_str() {
                    Some("trimmed") => text.trim().to_string(),
                    Some("padded") => format!("\n   {}  \n\n", text),
                    _ => text,
                };
                generate_module_token_stream_from_string(&text, &schema, opts)
            }
            _ => generate_module_token_stream(
                PathBuf::from(call["query"].as_str().unwrap_or("")),
                &schema,
                opts,
            ),
        };
        match res {
            Ok(ts) => Ok(ts.to_string()),
            Err(e) => Err(e.to_string()),
        }
    }));
    match r {
        Ok(Ok(s)) => Outcome { kind: "ok", text: s },
        Ok(Err(s)) => Outcome { kind: "err", text: s },
        Err(payload) => {
            let text = if let Some(s) = payload.downcast_ref::<&str>() {
                s.to_string()
            } else if let Some(s) = payload.downcast_ref::<String>() {
                s.clone()
            } else {
                "<non-string panic payload>".to_string()
            };
            Outcome { kind: "panic", text }
        }
    }
}

fn main() {
    let arg = std::env::args().nth(1).unwrap_or_else(|| {
        eprintln!("usage: c08-worker <plan.json>");
        std::process::exit(2)
    });
    let text = if arg == "-" {
        let mut s = String::new();
        std::io::Read::read_to_string(&mut std::io::stdin(), &mut s).expect("read stdin");
        s
    } else {
        std::fs::read_to_string(&arg).unwrap_or_else(|e| {
            eprintln!("c08-worker: cannot read {}: {}", arg, e);
            std::process::exit(2)
        })
    };
    let plan: Value = serde_json::from_str(&text).unwrap_or_else(|e| {
        eprintln!("c08-worker: bad plan: {}", e);
        std::process::exit(2)
    });
    if plan["probe"].as_str() == Some("seam") {
        println!("{}", json!({"seam": cfg!(graphql_client_verif)}));
        return;
    }
    std::panic::set_hook(Box::new(|_| {}));
    let dump = plan["dump_text"].as_bool().unwrap_or(false);
    let threads: Vec<Vec<Value>> = plan["threads"]
        .as_array()
        .map(|a| {
            a.iter()
                .map(|t| t.as_array().cloned().unwrap_or_default())
                .collect()
        })
        .unwrap_or_default();

    if plan["schedule"]["kind"].as_str() == Some("free") {
        // caller threads run under whatever scheduler owns this process. Used under Miri, whose
        // seeded scheduler preempts at basic-block granularity (-Zmiri-seed): that reaches races
        // on state the cache seam does not see (atomics, other locks). All threads start together.
        let barrier = std::sync::Arc::new(std::sync::Barrier::new(threads.len()));
        let order = std::sync::Arc::new(std::sync::Mutex::new(Vec::<String>::new()));
        let handles: Vec<_> = threads
            .into_iter()
            .enumerate()
            .map(|(t, calls)| {
                let (barrier, order) = (barrier.clone(), order.clone());
                std::thread::Builder::new()
                    .stack_size(STACK)
                    .spawn(move || {
                        barrier.wait();
                        calls
                            .iter()
                            .enumerate()
                            .map(|(i, c)| {
                                order.lock().unwrap().push(format!("b{}.{}", t, i));
                                let o = run_call(c);
                                order.lock().unwrap().push(format!("e{}.{}", t, i));
                                o
                            })
                            .collect::<Vec<_>>()
                    })
                    .expect("spawn")
            })
            .collect();
        let mut outs: Vec<Vec<Outcome>> = handles.into_iter().map(|h| h.join().expect("caller thread")).collect();
        // epilogue: after the concurrent phase, the listed calls once more, sequentially, on one
        // thread - whatever the interleaving left behind in process-wide state shows here
        if let Some(ep) = plan["epilogue"].as_array() {
            let ep = ep.clone();
            let h = std::thread::Builder::new().stack_size(STACK).spawn(move || ep.iter().map(run_call).collect::<Vec<_>>()).expect("spawn");
            outs.push(h.join().expect("epilogue thread"));
        }
        let out = json!({
            "seam": cfg!(graphql_client_verif),
            "simulated": false,
            "free_threads": true,
            "call_order": order.lock().unwrap().join(" "),
            "outcomes": outs.iter().map(|t| t.iter().map(|o| o.to_json(dump)).collect::<Vec<_>>()).collect::<Vec<_>>(),
        });
        println!("{}", out);
        return;
    }
    let simulated = plan["schedule"]["kind"].as_str().map(|k| k != "none").unwrap_or(false);
    if !simulated {
        // sequential: all call lists one after the other on one 16 MiB thread, no simulator
        let h = std::thread::Builder::new()
            .stack_size(STACK)
            .spawn(move || {
                threads
                    .iter()
                    .map(|calls| calls.iter().map(run_call).collect::<Vec<_>>())
                    .collect::<Vec<_>>()
            })
            .expect("spawn");
        let outs = h.join().expect("sequential runner never panics");
        let out = json!({
            "seam": cfg!(graphql_client_verif),
            "simulated": false,
            "outcomes": outs.iter().map(|t| t.iter().map(|o| o.to_json(dump)).collect::<Vec<_>>()).collect::<Vec<_>>(),
        });
        println!("{}", out);
        return;
    }

    #[cfg(not(graphql_client_verif))]
    {
        eprintln!("c08-worker: this build has no scheduler seam (guard off)");
        std::process::exit(3);
    }
    #[cfg(graphql_client_verif)]
    sim::run(&plan, threads, dump);
}

#[cfg(graphql_client_verif)]
mod sim {
    use super::*;
    use graphql_client_codegen::verif_hooks;
    use simcore::Rng;
    use std::cell::Cell;
    use std::sync::{Arc, Condvar, Mutex};

    thread_local! {
        static TID: Cell<Option<usize>> = Cell::new(None);
        static CUR_CALL: Cell<usize> = Cell::new(0);
        // (call, fine yield points seen in it): after the first 400 of a call only every 32nd is
        // a scheduling point, so that very large inputs stay affordable
        static FINE_SEEN: Cell<(usize, u32)> = Cell::new((usize::MAX, 0));
    }

    #[derive(Clone, Copy, PartialEq, Eq, Debug)]
    enum Th {
        NotStarted,
        Ready,
        Running,
        BlockedOn(usize),
        Finished,
        /// running outside the scheduler's control: it did not reach a scheduling point for
        /// `stall_ms` (blocked on something the seam does not see), so others were let run
        Detached,
    }

    enum Decider {
        Random(Rng),
        Pct {
            prio: Vec<u64>,
            change_at: Vec<usize>,
            low: u64,
        },
        List(Vec<u64>),
    }

    struct Fault {
        site: String,
        path: String,
        nth: u64,
        seen: u64,
        fired: bool,
        // for site == "panic": which call of which thread panics at its nth accessor yield point
        thread: usize,
        call: usize,
    }

    struct St {
        current: Option<usize>,
        th: Vec<Th>,
        decider: Decider,
        decisions: Vec<u64>,
        enabled_counts: Vec<u8>,
        events: Vec<String>,
        steps: usize,
        max_steps: usize,
        stop: Option<&'static str>, // deadlock | step-cap
        mutexes: Vec<(usize, String)>,
        holder: Vec<Option<usize>>,
        lock_order: Vec<String>,
        faults: Vec<Fault>,
        injected: Vec<(usize, usize, String, String)>,
        // probes / counters
        n_lock: u64,
        n_blocked: u64,
        n_poisoned_acq: u64,
        n_panic_release: u64,
        n_waiters_at_panic: u64,
        n_fault_points: u64,
        n_overtake_other_cache: u64,
        n_context_switches: u64,
        last_run: Option<usize>,
        tree_prefix: String,
        progress: u64,
        degraded: u64,
    }

    impl St {
        fn mutex_index(&mut self, id: usize, tag: &str) -> usize {
            if let Some(i) = self.mutexes.iter().position(|(a, _)| *a == id) {
                return i;
            }
            let name = if tag.contains("Schema") && !tag.contains("Document") {
                "S".to_string()
            } else if tag.contains("Document") {
                "Q".to_string()
            } else {
                format!("M{}", self.mutexes.len())
            };
            self.mutexes.push((id, name));
            self.holder.push(None);
            self.mutexes.len() - 1
        }
        fn name(&self, i: usize) -> &str {
            &self.mutexes[i].1
        }
        fn ev(&mut self, tid: usize, what: String) {
            self.events.push(format!("t{} {}", tid, what));
        }
        /// Picks the next runnable thread. Called with the state lock held by a thread that is
        /// giving up the processor (or by main at start).
        fn pick_next(&mut self) {
            let enabled: Vec<usize> = (0..self.th.len())
                .filter(|&i| self.th[i] == Th::Ready)
                .collect();
            if enabled.is_empty() {
                self.current = None;
                if self.th.iter().any(|t| *t == Th::Detached) {
                    return; // somebody is still running on its own; it will come back
                }
                if self.th.iter().any(|t| *t != Th::Finished) {
                    self.stop = Some("deadlock");
                }
                return;
            }
            self.steps += 1;
            if self.steps > self.max_steps {
                self.current = None;
                self.stop = Some("step-cap");
                return;
            }
            let step = self.decisions.len();
            let d: u64 = match &mut self.decider {
                Decider::Random(r) => r.below(enabled.len()) as u64,
                Decider::List(l) => l.get(step).copied().unwrap_or(0),
                Decider::Pct {
                    prio,
                    change_at,
                    low,
                } => {
                    if change_at.contains(&step) {
                        if let Some(r) = self.last_run {
                            *low -= 1;
                            prio[r] = *low;
                        }
                    }
                    let best = enabled
                        .iter()
                        .enumerate()
                        .max_by_key(|(_, &t)| prio[t])
                        .map(|(i, _)| i)
                        .unwrap();
                    best as u64
                }
            };
            let chosen = enabled[(d % enabled.len() as u64) as usize];
            self.decisions.push(d % enabled.len() as u64);
            self.enabled_counts.push(enabled.len().min(255) as u8);
            if self.last_run.is_some() && self.last_run != Some(chosen) {
                self.n_context_switches += 1;
            }
            self.last_run = Some(chosen);
            self.current = Some(chosen);
        }
    }

    pub struct Sched {
        m: Mutex<St>,
        cv: Condvar,
        /// interleave also at the accessor yield points inside code generation
        fine: bool,
        fine_points: std::sync::atomic::AtomicU64,
        /// some call is to be crashed at one of its accessor yield points
        has_panics: bool,
    }

    impl Sched {
        fn me() -> Option<usize> {
            TID.with(|t| t.get())
        }
        /// Gives up the processor at a scheduling point and waits to be chosen again.
        fn park(&self, tid: usize, new_state: Th) {
            let mut st = self.m.lock().unwrap_or_else(|p| p.into_inner());
            let was_detached = st.th[tid] == Th::Detached;
            st.th[tid] = new_state;
            st.progress += 1;
            if !was_detached || st.current.is_none() {
                // I hold the baton (or nobody does): pass it on
                st.pick_next();
            }
            self.cv.notify_all();
            loop {
                if st.stop.is_some() {
                    // the run is over (deadlock / cap): park forever, main reports and exits
                    st = self.cv.wait(st).unwrap_or_else(|p| p.into_inner());
                    continue;
                }
                if st.current == Some(tid) && st.th[tid] == Th::Ready {
                    st.th[tid] = Th::Running;
                    return;
                }
                st = self.cv.wait(st).unwrap_or_else(|p| p.into_inner());
            }
        }
        fn wait_first_turn(&self, tid: usize) {
            let mut st = self.m.lock().unwrap_or_else(|p| p.into_inner());
            st.th[tid] = Th::Ready;
            self.cv.notify_all();
            loop {
                if st.stop.is_none() && st.current == Some(tid) && st.th[tid] == Th::Ready {
                    st.th[tid] = Th::Running;
                    return;
                }
                st = self.cv.wait(st).unwrap_or_else(|p| p.into_inner());
            }
        }
        fn finish(&self, tid: usize) {
            let mut st = self.m.lock().unwrap_or_else(|p| p.into_inner());
            st.ev(tid, "finish".into());
            let was_detached = st.th[tid] == Th::Detached;
            st.th[tid] = Th::Finished;
            st.progress += 1;
            if !was_detached || st.current.is_none() {
                st.pick_next();
            }
            self.cv.notify_all();
        }
        fn event(&self, tid: usize, what: String) {
            let mut st = self.m.lock().unwrap_or_else(|p| p.into_inner());
            st.ev(tid, what);
        }
    }

    struct Hook(Arc<Sched>);

    impl verif_hooks::Sim for Hook {
        fn before_lock(&self, id: usize, tag: &'static str) {
            let Some(tid) = Sched::me() else { return };
            {
                let mut st = self.0.m.lock().unwrap_or_else(|p| p.into_inner());
                let mi = st.mutex_index(id, tag);
                let n = st.name(mi).to_string();
                st.n_lock += 1;
                st.ev(tid, format!("lock? {}", n));
            }
            self.0.park(tid, Th::Ready);
        }
        fn blocked(&self, id: usize, tag: &'static str) {
            let Some(tid) = Sched::me() else {
                std::thread::yield_now();
                return;
            };
            let mi;
            {
                let mut st = self.0.m.lock().unwrap_or_else(|p| p.into_inner());
                mi = st.mutex_index(id, tag);
                let n = st.name(mi).to_string();
                st.n_blocked += 1;
                st.ev(tid, format!("blk {}", n));
                if st.holder[mi].is_none() {
                    // held by a thread the simulator does not know: treat as runnable again
                    drop(st);
                    self.0.park(tid, Th::Ready);
                    return;
                }
            }
            self.0.park(tid, Th::BlockedOn(mi));
        }
        fn acquired(&self, id: usize, tag: &'static str, poisoned: bool) {
            let Some(tid) = Sched::me() else { return };
            let mut st = self.0.m.lock().unwrap_or_else(|p| p.into_inner());
            let mi = st.mutex_index(id, tag);
            let n = st.name(mi).to_string();
            st.holder[mi] = Some(tid);
            if poisoned {
                st.n_poisoned_acq += 1;
            }
            // somebody else is parked *inside* a critical section of another cache?
            let others_holding = st
                .holder
                .iter()
                .enumerate()
                .any(|(j, h)| j != mi && h.is_some() && *h != Some(tid));
            if others_holding {
                st.n_overtake_other_cache += 1;
            }
            st.lock_order.push(format!("{}{}", n, tid));
            st.ev(tid, format!("{} {}", if poisoned { "acq!" } else { "acq" }, n));
        }
        fn released(&self, id: usize, tag: &'static str, panicking: bool) {
            let Some(tid) = Sched::me() else { return };
            let mut st = self.0.m.lock().unwrap_or_else(|p| p.into_inner());
            let mi = st.mutex_index(id, tag);
            let n = st.name(mi).to_string();
            st.holder[mi] = None;
            let mut waiters = 0;
            for t in st.th.iter_mut() {
                if *t == Th::BlockedOn(mi) {
                    *t = Th::Ready;
                    waiters += 1;
                }
            }
            if panicking {
                st.n_panic_release += 1;
                if waiters > 0 {
                    st.n_waiters_at_panic += 1;
                }
            }
            st.ev(
                tid,
                format!("{} {} w{}", if panicking { "relP" } else { "rel" }, n, waiters),
            );
            if st.current.is_none() && st.stop.is_none() && waiters > 0 {
                // released by a detached thread while everybody else was blocked
                st.pick_next();
                self.0.cv.notify_all();
            }
        }
        fn yield_point(&self, site: &'static str) -> bool {
            if !self.0.fine && !self.0.has_panics {
                return false;
            }
            let Some(tid) = Sched::me() else { return false };
            let mut fire = false;
            if self.0.has_panics {
                let call = CUR_CALL.with(|c| c.get());
                let mut st = self.0.m.lock().unwrap_or_else(|q| q.into_inner());
                for f in st.faults.iter_mut() {
                    if f.site == "panic" && !f.fired && f.thread == tid && f.call == call {
                        if f.seen == f.nth {
                            f.fired = true;
                            fire = true;
                        }
                        f.seen += 1;
                    }
                }
                if fire {
                    st.injected.push((tid, call, "panic".to_string(), site.to_string()));
                    st.ev(tid, format!("INJECT-PANIC at {}", site));
                }
            }
            if self.0.fine {
                let call = CUR_CALL.with(|c| c.get());
                let n = FINE_SEEN.with(|c| {
                    let (k, n) = c.get();
                    let n = if k == call { n + 1 } else { 1 };
                    c.set((call, n));
                    n
                });
                if n <= 400 || n % 32 == 0 {
                    self.0.fine_points.fetch_add(1, std::sync::atomic::Ordering::Relaxed);
                    self.0.park(tid, Th::Ready);
                }
            }
            fire
        }
        fn fault_point(&self, site: &'static str, path: &std::path::Path) -> Option<std::io::Error> {
            let tid = Sched::me()?;
            let p = path.display().to_string();
            let mut fire = false;
            {
                let mut st = self.0.m.lock().unwrap_or_else(|q| q.into_inner());
                st.n_fault_points += 1;
                let short = p.strip_prefix(&st.tree_prefix).unwrap_or(&p).to_string();
                st.ev(tid, format!("fp {} {}", site, short));
                let call = CUR_CALL.with(|c| c.get());
                for f in st.faults.iter_mut() {
                    if !f.fired && f.site == site && f.path == p {
                        if f.seen == f.nth {
                            f.fired = true;
                            fire = true;
                        }
                        f.seen += 1;
                    }
                }
                if fire {
                    st.injected.push((tid, call, site.to_string(), short.clone()));
                    st.ev(tid, format!("INJECT {} {}", site, short));
                }
            }
            // a yield inside the critical section: the "slow disk"
            self.0.park(tid, Th::Ready);
            if fire {
                Some(std::io::Error::new(
                    std::io::ErrorKind::Other,
                    "verif-injected-EIO",
                ))
            } else {
                None
            }
        }
    }

    pub fn run(plan: &Value, threads: Vec<Vec<Value>>, dump: bool) {
        let n = threads.len();
        let kind = plan["schedule"]["kind"].as_str().unwrap_or("random");
        let seed = plan["schedule"]["seed"].as_u64().unwrap_or(0);
        let decider = match kind {
            "list" => Decider::List(
                plan["schedule"]["decisions"]
                    .as_array()
                    .map(|a| a.iter().map(|x| x.as_u64().unwrap_or(0)).collect())
                    .unwrap_or_default(),
            ),
            "pct" => {
                let mut r = Rng::new(seed);
                let depth = plan["schedule"]["depth"].as_u64().unwrap_or(2) as usize;
                let hint = plan["schedule"]["steps_hint"].as_u64().unwrap_or(64).max(1) as usize;
                let mut prio: Vec<u64> = (0..n as u64).map(|i| 1000 + i).collect();
                r.shuffle(&mut prio);
                let change_at = (0..depth).map(|_| r.below(hint)).collect();
                Decider::Pct {
                    prio,
                    change_at,
                    low: 1000,
                }
            }
            _ => Decider::Random(Rng::new(seed)),
        };
        let faults = plan["faults"]
            .as_array()
            .map(|a| {
                a.iter()
                    .map(|f| Fault {
                        site: f["site"].as_str().unwrap_or("").to_string(),
                        path: f["path"].as_str().unwrap_or("").to_string(),
                        nth: f["nth"].as_u64().unwrap_or(0),
                        seen: 0,
                        fired: false,
                        thread: f["thread"].as_u64().unwrap_or(0) as usize,
                        call: f["call"].as_u64().unwrap_or(0) as usize,
                    })
                    .collect()
            })
            .unwrap_or_default();
        let sched = Arc::new(Sched {
            m: Mutex::new(St {
                current: None,
                th: vec![Th::NotStarted; n],
                decider,
                decisions: vec![],
                enabled_counts: vec![],
                events: vec![],
                steps: 0,
                max_steps: plan["max_steps"].as_u64().unwrap_or(400) as usize,
                stop: None,
                mutexes: vec![],
                holder: vec![],
                lock_order: vec![],
                faults,
                injected: vec![],
                n_lock: 0,
                n_blocked: 0,
                n_poisoned_acq: 0,
                n_panic_release: 0,
                n_waiters_at_panic: 0,
                n_fault_points: 0,
                n_overtake_other_cache: 0,
                n_context_switches: 0,
                last_run: None,
                tree_prefix: plan["tree_prefix"].as_str().unwrap_or("").to_string(),
                progress: 0,
                degraded: 0,
            }),
            cv: Condvar::new(),
            fine: plan["schedule"]["fine"].as_bool().unwrap_or(false),
            fine_points: std::sync::atomic::AtomicU64::new(0),
            has_panics: plan["faults"].as_array().map(|a| a.iter().any(|f| f["site"] == "panic")).unwrap_or(false),
        });
        assert!(verif_hooks::register(Box::new(Hook(sched.clone()))));

        let results: Arc<Mutex<Vec<Vec<Option<Outcome>>>>> = Arc::new(Mutex::new(
            threads.iter().map(|c| vec![None; c.len()]).collect(),
        ));
        let mut handles = vec![];
        for (tid, calls) in threads.iter().cloned().enumerate() {
            let sched = sched.clone();
            let results = results.clone();
            handles.push(
                std::thread::Builder::new()
                    .stack_size(STACK)
                    .name(format!("sim-{}", tid))
                    .spawn(move || {
                        TID.with(|t| t.set(Some(tid)));
                        sched.wait_first_turn(tid);
                        for (i, call) in calls.iter().enumerate() {
                            if i > 0 {
                                sched.park(tid, Th::Ready);
                            }
                            CUR_CALL.with(|c| c.set(i));
                            sched.event(tid, format!("call {} begin", i));
                            let out = run_call(call);
                            sched.event(
                                tid,
                                format!(
                                    "call {} end {} {}",
                                    i,
                                    out.kind,
                                    &simcore::fingerprint(out.text.as_bytes())[..12]
                                ),
                            );
                            results.lock().unwrap()[tid][i] = Some(out);
                        }
                        sched.finish(tid);
                    })
                    .expect("spawn"),
            );
        }
        // wait until every thread stands at its start line, then hand out the first turn
        {
            let mut st = sched.m.lock().unwrap();
            while st.th.iter().any(|t| *t == Th::NotStarted) {
                st = sched.cv.wait(st).unwrap();
            }
            st.pick_next();
            sched.cv.notify_all();
            // wait for the end of the run; main doubles as the watchdog for blocking that the
            // seam cannot see (the only place a real clock is read, and only to *detach* a thread)
            let stall = std::time::Duration::from_millis(plan["stall_ms"].as_u64().unwrap_or(400));
            let mut seen = (st.progress, std::time::Instant::now());
            loop {
                if st.stop.is_some() || st.th.iter().all(|t| *t == Th::Finished) {
                    break;
                }
                let (g, _) = sched.cv.wait_timeout(st, std::time::Duration::from_millis(100)).unwrap();
                st = g;
                if st.progress != seen.0 {
                    seen = (st.progress, std::time::Instant::now());
                } else if seen.1.elapsed() >= stall {
                    if let Some(t) = st.current {
                        if st.th[t] == Th::Running {
                            st.th[t] = Th::Detached;
                            st.degraded += 1;
                            st.ev(t, "DETACHED (no scheduling point reached; blocked outside the seam?)".into());
                            st.progress += 1;
                            st.pick_next();
                            sched.cv.notify_all();
                        }
                    }
                    seen = (st.progress, std::time::Instant::now());
                }
            }
        }
        let st = sched.m.lock().unwrap();
        let stopped = st.stop;
        if stopped.is_none() {
            drop(st);
            for h in handles {
                let _ = h.join();
            }
        } else {
            drop(st);
        }
        let st = sched.m.lock().unwrap();
        let res = results.lock().unwrap();
        let log = st.events.join("\n");
        let mut out = json!({
            "seam": true,
            "simulated": true,
            "stop": stopped,
            "degraded": st.degraded,
            "outcomes": res.iter().map(|t| t.iter().map(|o| match o { Some(o) => o.to_json(dump), None => Value::Null }).collect::<Vec<_>>()).collect::<Vec<_>>(),
            "decisions": if sched.fine && !plan["want_decisions"].as_bool().unwrap_or(false) { json!(null) } else { json!(st.decisions) },
            "decision_count": st.decisions.len(),
            "decisions_fp": simcore::fingerprint(st.decisions.iter().map(|d| (*d as u8).wrapping_add(48)).collect::<Vec<u8>>().as_slice()),
            "enabled": if sched.fine { json!(null) } else { json!(st.enabled_counts) },
            "fine_yield_points": sched.fine_points.load(std::sync::atomic::Ordering::Relaxed),
            "log_hash": simcore::fingerprint(log.as_bytes()),
            "lock_order": st.lock_order.join(" "),
            "injected": st.injected.iter().map(|(t,c,s,p)| json!({"thread":t,"call":c,"site":s,"path":p})).collect::<Vec<_>>(),
            "thread_states": st.th.iter().map(|t| format!("{:?}", t)).collect::<Vec<_>>(),
            "stats": {
                "steps": st.steps,
                "lock_attempts": st.n_lock,
                "blocked": st.n_blocked,
                "poisoned_acquisitions": st.n_poisoned_acq,
                "panic_releases": st.n_panic_release,
                "waiters_at_panic": st.n_waiters_at_panic,
                "fault_points": st.n_fault_points,
                "acquired_while_other_cache_held": st.n_overtake_other_cache,
                "context_switches": st.n_context_switches,
            },
        });
        if plan["events"].as_bool().unwrap_or(false) {
            out["events"] = json!(st.events);
        }
        println!("{}", out);
        // threads may be parked forever after a deadlock / cap: leave without joining
        std::process::exit(0);
    }
}
