#!/usr/bin/env bash
# Usage: tools/confirm_seeded.sh <worktree> <seeded-id> <C08|C20>
# Confirms a sub-agent's mutation independently (suite passes with it, demo fails with it and
# passes without it), stores it under /verif/seeded/<id>/ and runs our check against it.
set -u
wt=$1; id=$2; prop=$3
M=$wt/MUTATION
[ -f "$M/patch.diff" ] || { echo "no patch.diff in $M"; exit 2; }
demo=$(ls "$M"/run_demo.sh 2>/dev/null) || { echo "no run_demo.sh"; exit 2; }
cd "$wt" || exit 2
export CARGO_NET_OFFLINE=true
# state: patch applied?
if git apply --check -R "$M/patch.diff" 2>/dev/null; then applied=1; else applied=0; git apply "$M/patch.diff" || { echo "cannot apply patch"; exit 2; }; fi
echo "--- test suite WITH the change"
cargo test --workspace --no-fail-fast --offline >"$wt/target/.confirm_tests.log" 2>&1; trc=$?
pass=$(grep -E "^test result" "$wt/target/.confirm_tests.log" | awk '{p+=$4; f+=$6} END {print p" passed "f" failed"}')
echo "suite exit=$trc $pass"
echo "--- demo WITH the change (expect non-zero)"
bash "$demo" >"$wt/target/.confirm_demo_with.log" 2>&1; d1=$?; echo "demo exit=$d1"; tail -5 "$wt/target/.confirm_demo_with.log"
git apply -R "$M/patch.diff"
echo "--- demo WITHOUT the change (expect 0)"
bash "$demo" >"$wt/target/.confirm_demo_without.log" 2>&1; d0=$?; echo "demo exit=$d0"; tail -3 "$wt/target/.confirm_demo_without.log"
git apply "$M/patch.diff"
mkdir -p /verif/seeded/$id
cp -r "$M"/* /verif/seeded/$id/
echo "--- our check against the change"
cd /verif && tools/try_mutation.sh /verif/seeded/$id/patch.diff $prop quick >/verif/.work/seeded-$id.log 2>&1; crc=$?
grep -E "^C[0-9]+:|violation class|VIOLATION|try_mutation|harness" /verif/.work/seeded-$id.log
classes=$(grep -E "^violation class" /verif/.work/seeded-$id.log | sed 's/violation class=\([^ ]*\).*/\1/' | sort -u | tr '\n' ',' | sed 's/,$//')
cat > /verif/seeded/$id/confirm.json <<J
{"id":"$id","property":"$prop","suite_with_change":"exit=$trc $pass","demo_with_change_exit":$d1,"demo_without_change_exit":$d0,"check_quick_exit":$crc,"violation_classes":"$classes"}
J
cat /verif/seeded/$id/confirm.json
rm -f /verif/replays/*
