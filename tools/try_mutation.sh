#!/usr/bin/env bash
# Usage: tools/try_mutation.sh <patch.diff> <C08|C20> [quick|thorough]
# Applies a patch to /repo, runs the check, and ALWAYS restores /repo afterwards.
set -u
patch=$(readlink -f "$1"); prop=$2; tier=${3:-quick}
cd /repo || exit 2
if [ -n "$(git status --porcelain)" ]; then echo "refusing: /repo is not clean"; exit 2; fi
git apply --check "$patch" || { echo "patch does not apply"; exit 2; }
git apply "$patch"
trap 'cd /repo && git apply -R "$patch" 2>/dev/null; git -C /repo checkout -- . ; git -C /repo status --porcelain' EXIT
cd /verif && ./check "$prop" "$tier"
rc=$?
echo "try_mutation: patch=$(basename "$patch") property=$prop tier=$tier exit=$rc"
exit $rc
